#!/venv/bin/python
"""Regenerates MANIFEST.json from the table below (single source of truth for the interface)."""
import json
from pathlib import Path

BASELINE = ("cd /repo && /venv/bin/python -m pytest -ra -q -p no:cacheprovider --timeout=900 "
            "--continue-on-collection-errors")

RETRY_TECH = ("TLC exhaustive check of RetryLoop.tla (implementation-shaped model M) against the RetryMon.tla "
              "monitors (P) on a focused configuration; every terminal behaviour exported by TLC replayed "
              "through the real sync and async runners (call/execute) and compared event by event; "
              "differing and random wide-constant traces validated by TLC (RetryTrace.tla) against P "
              "(verdict) and M (conformance)")
RETRY_NOTE = ("virtual monotonic clock (ticks of 2**-6 s) advancing only inside the operation and the sleeper; "
              "erratic wall clock; observation through public callbacks only; bounds in spec/RetryMC_<id>*.cfg")


def retry(text, ref):
    return ("model_checking", RETRY_TECH, text, RETRY_NOTE, ref)


CHECKS = {
    # id: (category, technique, text, note, design_ref)
    "C01": ("model_checking",
            "Apalache inductive invariant of CapsInd.tla (the loop's counters respect all four caps for arbitrary "
            "max_attempts / per-class / UNKNOWN limits; mutants refuted; bound to RetryLoop.tla by the TLC "
            "cross-check CapsIndX.tla) + " + RETRY_TECH,
            "M |= caps monitor (global, per-class, UNKNOWN, non-retryable, fresh counters per run) "
            "exhaustively for max_attempts 0..4 x per-class limits x UNKNOWN caps x both causes x 2 runs; "
            "real runners conform to M on every exported behaviour", RETRY_NOTE, "5/C01"),
    "C02": retry("M |= deadline-envelope monitor for every ordering/equality of elapsed vs deadline at the "
                 "three clock-reading sites, sleeper overshoot and non-sleeping sleeper; plus a differential "
                 "of each behaviour under three wall-clock patterns; attempt timeouts that fire are an outcome of M ('hang', spec/RetryMC_HANGx.cfg, 64 560 behaviours replayed: async runner on the virtual loop clock, sync runner sampled in real time)", "5/C02"),
    "C03": retry("M |= the retry-iff-permitted biconditional (hard stop conditions computed by the monitor from "
                 "its own counters, budget, abort, handler, post-sleep deadline) on the interaction model "
                 "(864 configurations)", "5/C03"),
    "C04": retry("M |= call()-delivery monitor (identity of returned/raised object, RetryExhaustedError fields) "
                 "for mixed exception/result histories and every stop reason; attempt timeouts that fire are an outcome of M ('hang', spec/RetryMC_HANGx.cfg, 64 560 behaviours replayed: async runner on the virtual loop clock, sync runner sampled in real time)", "5/C04"),
    "C05": retry("M |= back-off data-flow monitor: which strategy, its arguments, sanitised and capped value "
                 "propagated to event, handler, before_sleep, sleeper, next prev_sleep_s and next_sleep_s, for all "
                 "sanitiser classes at every retry index and context/legacy signatures", "5/C05"),
    "C11": retry("M |= execute()-outcome monitor (ok/value/stop_reason/attempts/last_*/cause/next_sleep_s, only "
                 "cancellation kinds propagate); attempt timeouts that fire are an outcome of M ('hang', spec/RetryMC_HANGx.cfg, 64 560 behaviours replayed: async runner on the virtual loop clock, sync runner sampled in real time)", "5/C11"),
    "C13": retry("M |= abort/cancellation monitor: abort polls before every attempt and sleep, nothing after an abort "
                 "request, cancellation kinds from operation, before_sleep and sleeper propagate unchanged; attempt timeouts that fire are an outcome of M ('hang', spec/RetryMC_HANGx.cfg, 64 560 behaviours replayed: async runner on the virtual loop clock, sync runner sampled in real time)", "5/C13"),
    "C14": retry("M |= event-stream monitor: retry(i)* then exactly one terminal event, tags vs final failure and "
                 "delivered stop reason, metric/log sink parity, captured timeline = metric/log stream; policy level "
                 "(PolicyCall.tla / PolicyMon.tla): breaker transitions and rejections reported with attempt 0 and "
                 "the breaker's state, incl. histories with direct breaker operations by other users", "5/C14"),
    "C16": retry("M |= sleep-handler protocol monitor for all decision sequences, before_sleep present/absent, "
                 "policy-level / call-level / both placements (decoy callbacks), awaitable variants", "5/C16"),
    "C07": ("model_checking",
            "Apalache inductive invariant of BreakerInd.tla (M agrees with the reference for arbitrary integer "
            "parameters and times; bound to Breaker.tla by the TLC cross-check BreakerIndX.tla); "
            "TLC exhaustive check of Breaker.tla (M vs reference), of PolicyCall.tla + PolicyMon.tla (policy calls "
            "in front of the breaker) and of ConcCalls.tla / PolicyConc.tla (concurrent calls, all interleavings); "
            "graph replay on the real CircuitBreaker; every exported sequential and concurrent behaviour replayed "
            "through Policy/AsyncPolicy; TLC trace validation (PolicyTrace.tla, ConcTrace.tla)",
            "M |= C07 at breaker level (reject while open up to the exact timeout, single probe, close clears history, "
            "failed probe re-opens), at policy level (no invocation and no record by a rejected call, the probe's own "
            "result closes or re-opens) for sequences of calls - and direct breaker operations by other users - with "
            "clock gaps around recovery_timeout_s, and under concurrency: PolicyConc.tla explores all "
            "interleavings of 4 calls sharing a breaker (M |= P except the two known-finding clauses) and the "
            "exported interleavings are replayed by driving real AsyncPolicy coroutines by hand",
            "virtual clock; breaker observed through a delegating subclass; concurrent calls have no retry component "
            "(one suspension point each); two known findings (anonymous settlements) are listed in known_findings.json",
            "5/C07"),
    "C08": ("model_checking",
            "TLC exhaustive check of PolicyCall.tla against PolicyMon.tla + replay of every exported behaviour + "
            "fault enumeration on the real code (operation exit kinds, raising callbacks at each site, exceptions "
            "thrown into the coroutine at every suspension point) with every recorded trace judged by TLC; "
            "concurrently running calls (ConcCalls.tla / ConcTrace.tla): when every call is over the breaker admits again",
            "M |= every admitted call settles exactly once; on the real code ~10^4 fault scenarios per run over 8 entry "
            "points are validated by TLC against the settlement monitor plus the direct oracle (advance the clock by "
            "recovery_timeout_s, ask for admission)",
            "fault points are those reachable through public callbacks and coroutine suspension points",
            "5/C08"),
    "C09": ("model_checking",
            "TLC exhaustive check of PolicyCall.tla against PolicyMon.tla (one record per admitted call, by final "
            "outcome) + replay of every exported behaviour through Policy/AsyncPolicy + TLC trace validation; concurrently running calls that raise the very same exception object (ConcCalls.tla): each record follows the call's own outcome",
            "M |= C09 for every stop reason x both causes x call/execute x with/without retry over sequences of calls "
            "sharing a breaker; the real entry points conform to M on every exported behaviour",
            "breaker observed through a delegating subclass; classification without retry is the library's own "
            "default_classifier",
            "5/C09"),
    "C12": ("model_checking",
            "differential execution of every TLC-exported behaviour of RetryLoop.tla (plus raising-callback variants) "
            "through all 14 entry points of the real library, call- and execute-style; pairwise comparison of "
            "normalised traces; the call/execute delivery relation CallOfExec is an invariant of M and is checked "
            "by TLC (PairCheck.tla) on the pairs of real deliveries",
            "on the exported scenario space (exhaustive for the export configuration) all entry points perform the "
            "same invocations, strategy calls, sleeps, events, hook and budget interactions, and the call()/execute() "
            "deliveries are related; six call-vs-execute divergences under raising callbacks are known findings",
            "scripted deterministic environment; relational verdict decided on executions of the real code",
            "5/C12"),
    "C15": ("model_checking",
            "differential execution of every TLC-exported behaviour (retry level: RetryLoop.tla; policy level with "
            "breaker events: PolicyCall.tla) with on_metric / on_log / before_sleep raising at each invocation index "
            "and always, several exception types, sync and async (awaitable hooks), with and without timeline capture; "
            "the trace must equal the silent-hook trace, which is itself compared with M's prediction",
            "for every exported behaviour and every hook invocation index the run is unchanged by a raising hook and "
            "the other sinks still receive every event",
            "hooks raise subclasses of Exception; scenario space bounded by spec/RetryMC_C15x.cfg and PolicyMC_C15x.cfg",
            "5/C15"),
    "C17": ("model_checking",
            "systematic enumeration of line-level thread interleavings of the real Budget / CircuitBreaker methods "
            "under a deterministic scheduler (sys.settrace + scheduler-controlled replacement of the instance lock, "
            "pre-emption bounding); every distinct concurrent history is judged by TLC (LinCheck.tla) for "
            "linearizability against the sequential specifications Breaker.tla / Budget.tla, plus deadlock detection; "
            "design level: PlusCal algorithms BreakerThreads.tla / BudgetThreads.tla (one label per source line, "
            "explicit lock) model-checked for mutual exclusion, linearizability and deadlock freedom with the "
            "lock-free variants refuted, and the scheduler's line events of real runs validated against their labels "
            "(ThreadTrace.tla, BudgetThreadTrace.tla)",
            "all schedules within the pre-emption bound for 18 hand-written and 150 systematic concurrent programs "
            "(all pairs of operations from every relevant initial state) "
            "yield histories (per-thread results, sequential epilogue exposing hidden state, final state) equal to "
            "some sequential order; no schedule deadlocks",
            "pre-emption before every source line of circuit.py/budget.py (not inside a line); constant clock during "
            "the concurrent phase; pre-emption bound 2 (quick) / 3 (thorough)",
            "5/C17"),
    "C18": ("exploration",
            "Strategies.tla: exact-rational model of the stateless strategies on a spec-chosen grid and of the "
            "AdaptiveStrategy window machine; TLC checks value-in-envelope on the grid / state space and exports test "
            "vectors and the transition graph; the real strategies are run with the random draw pinned and compared "
            "with the envelope (verdict) and the model value (conformance); seeded neighbourhood sampling",
            "envelopes hold on every grid point (incl. attempt 1024, 1751, 10^6; both ends of the random interval), on "
            "every reachable AdaptiveStrategy state within the bounds, and on seeded random neighbourhoods; not a proof "
            "over all floats",
            "grid parameters are exact dyadic floats; random.uniform replaced by a + (b-a)*draw",
            "5/C18"),
    "C19": ("exploration",
            "Classify.tla: abstract exception domain with Python truthiness/isinstance semantics, implementation-"
            "shaped decision tables and property-level allowed sets; TLC checks table-in-allowed-set on the whole domain "
            "(51k abstract cases) and exports them; each case is concretised several ways and run through the real "
            "classifiers (never raises, returns an ErrorClass, inside the allowed set; strict ignores names; optional-"
            "library classifiers equal default_classifier)",
            "exhaustive over the abstract domain of spec/Classify.tla, sampled inside each abstract value",
            "attribute values are built-in values; optional libraries absent in the sandbox",
            "5/C19"),
    "C20": ("exploration",
            "RetryAfter.tla: parsing table (source x header container shape x value category -> expected hint "
            "category) and honouring envelope on an integer grid, evaluated and exported by TLC; real "
            "http_retry_after_classifier run on fixed and seeded random members of every cell; retry_after_or driven "
            "directly and through a real Retry policy on the virtual clock with the draw pinned",
            "never raises; hint is None or a non-negative number; documented values exact; delay within "
            "[hint, hint+jitter] capped by the remaining time on the whole grid; safety over all strings sampled per "
            "syntactic category",
            "HTTP-date expectations use the real wall clock with 5 s tolerance",
            "5/C20"),
    "C06": ("model_checking",
            "Apalache inductive invariant of BreakerInd.tla (M agrees with the unpruned-log reference for arbitrary "
            "integer thresholds, windows, timeouts and times; mutants refuted; bound to Breaker.tla by the TLC "
            "cross-check BreakerIndX.tla) + "
            "TLC exhaustive check of Breaker.tla (deque model M vs unpruned-log reference P) + replay of "
            "every transition of M's exported graph on the real CircuitBreaker + TLC trace validation "
            "of recorded random histories",
            "M |= C06 exhaustively within the bounds of spec/BreakerMC_*.cfg; every transition of M and "
            "random walks replayed on the real object; recorded traces judged by TLC against the reference",
            "virtual clock with whole ticks; observation through allow()/record_*()/state only",
            "5/C06"),
    "C10": ("model_checking",
            "Apalache inductive invariant of BudgetInd.tla (no over-grant, no refusal with capacity, window bound for "
            "arbitrary integer max_retries, window and times; mutants refuted; bound to Budget.tla by the TLC "
            "cross-check BudgetIndX.tla) + "
            "TLC exhaustive check of Budget.tla (deque model vs grant-log reference) and of RetryLoop.tla with the "
            "shared windowed budget + graph replay on the real Budget + behaviour replay through the real runners + "
            "TLC trace validation of recorded histories",
            "M |= C10 (no over-grant, refusal only when full, remaining(), sliding-window bound) within "
            "spec/BudgetMC_*.cfg; all transitions replayed on the real Budget; random histories validated by TLC; "
            "policy level: RetryLoop.tla with the windowed budget shared by two policy objects over three runs with "
            "clock gaps (RetryMC_C10*.cfg), replayed through Retry/AsyncRetry, BUDGET_EXHAUSTED only when the "
            "reference window is full",
            "virtual monotonic clock with whole ticks; observation through consume()/remaining()",
            "5/C10"),
}
ALL = [f"C{i:02d}" for i in range(1, 21)]

manifest = {
    "version": 1,
    "setup_cmd": "cd /verif && ./setup.sh",
    "hooks": {
        "guard": "REDRESS_VERIF",
        "enable": "no source hooks are needed: every observation is made through the public API; "
                  "checks import redress from /repo/src of the working tree (PYTHONPATH) in a fresh process",
        "baseline_off_cmd": BASELINE,
        "source_commits": [],
        "add_only": True,
    },
    "engines": [
        {"name": "tlc-mbt", "path": "harness/", "serves_properties": sorted(CHECKS),
         "kind_free_text": "TLA+ specifications (spec/*.tla) checked by TLC; behaviours/graphs exported "
                           "by TLC are replayed on the real code; traces recorded from the real code "
                           "are validated by TLC trace specifications"},
        {"name": "apalache-inductive", "path": "harness/apalache.py",
         "serves_properties": ["C01", "C06", "C07", "C10"],
         "kind_free_text": "TLA+ inductive invariants (spec/CapsInd.tla, BreakerInd.tla, BudgetInd.tla) checked "
                           "symbolically by Apalache for arbitrary integer parameters and times, with refuted "
                           "textual mutants as vacuity guard, and bound to the TLC models by TLC cross-checks "
                           "(spec/*IndX.tla); runs inside the tlc-mbt checks of those properties"},
    ],
    "checks": [
        {
            "property_id": pid,
            "quick_cmd": f"./check {pid} --tier quick",
            "thorough_cmd": f"./check {pid} --tier thorough",
            "evidence_file": f"/verif/evidence/{pid}.json",
            "replay_cmd_template": f"./check {pid} --replay {{path}}",
            "engine": "tlc-mbt",
            "level_claimed": {"category": cat, "text": text, "design_ref": ref},
            "level_note": note,
            "technique": tech,
        }
        for pid, (cat, tech, text, note, ref) in sorted(CHECKS.items())
    ],
    "notes": "See DESIGN.md. Exit 0 = held on everything explored; 1 = VIOLATION line; 2 = machinery failure.",
    "not_applicable": [
        {"property_id": pid, "reason": "check not built yet in this round (planned, see DESIGN.md section 9)"}
        for pid in ALL if pid not in CHECKS
    ],
}
Path(__file__).with_name("MANIFEST.json").write_text(json.dumps(manifest, indent=1) + "\n")
print("wrote MANIFEST.json with", len(CHECKS), "checks")
