#!/venv/bin/python
"""Regenerates MANIFEST.json from the table below (single source of truth for the interface)."""
import json
from pathlib import Path

BASELINE = ("cd /repo && /venv/bin/python -m pytest -ra -q -p no:cacheprovider --timeout=900 "
            "--continue-on-collection-errors --no-cov")

CHECKS = {
    # id: (category, technique, text, note, design_ref)
    "C06": ("model_checking",
            "TLC exhaustive check of Breaker.tla (deque model M vs unpruned-log reference P) + replay of "
            "every transition of M's exported graph on the real CircuitBreaker + TLC trace validation "
            "of recorded random histories",
            "M |= C06 exhaustively within the bounds of spec/BreakerMC_*.cfg; every transition of M and "
            "random walks replayed on the real object; recorded traces judged by TLC against the reference",
            "virtual clock with whole ticks; observation through allow()/record_*()/state only",
            "5/C06"),
    "C10": ("model_checking",
            "TLC exhaustive check of Budget.tla (deque model vs grant-log reference) + graph replay on the "
            "real Budget + TLC trace validation of recorded histories",
            "M |= C10 (no over-grant, refusal only when full, remaining(), sliding-window bound) within "
            "spec/BudgetMC_*.cfg; all transitions replayed on the real Budget; random histories "
            "validated by TLC",
            "virtual monotonic clock with whole ticks; observation through consume()/remaining()",
            "5/C10"),
}
ALL = [f"C{i:02d}" for i in range(1, 21)]

manifest = {
    "version": 1,
    "setup_cmd": "cd /verif && ./setup.sh",
    "hooks": {
        "guard": "REDRESS_VERIF",
        "enable": "no source hooks are needed: every observation is made through the public API; "
                  "checks import redress from /repo/src of the working tree (PYTHONPATH) in a fresh process",
        "baseline_off_cmd": BASELINE,
        "source_commits": [],
        "add_only": True,
    },
    "engines": [
        {"name": "tlc-mbt", "path": "harness/", "serves_properties": sorted(CHECKS),
         "kind_free_text": "TLA+ specifications (spec/*.tla) checked by TLC; behaviours/graphs exported "
                           "by TLC are replayed on the real code; traces recorded from the real code "
                           "are validated by TLC trace specifications"},
    ],
    "checks": [
        {
            "property_id": pid,
            "quick_cmd": f"./check {pid} --tier quick",
            "thorough_cmd": f"./check {pid} --tier thorough",
            "evidence_file": f"/verif/evidence/{pid}.json",
            "replay_cmd_template": f"./check {pid} --replay {{path}}",
            "engine": "tlc-mbt",
            "level_claimed": {"category": cat, "text": text, "design_ref": ref},
            "level_note": note,
            "technique": tech,
        }
        for pid, (cat, tech, text, note, ref) in sorted(CHECKS.items())
    ],
    "notes": "See DESIGN.md. Exit 0 = held on everything explored; 1 = VIOLATION line; 2 = machinery failure.",
    "not_applicable": [
        {"property_id": pid, "reason": "check not built yet in this round (planned, see DESIGN.md section 9)"}
        for pid in ALL if pid not in CHECKS
    ],
}
Path(__file__).with_name("MANIFEST.json").write_text(json.dumps(manifest, indent=1) + "\n")
print("wrote MANIFEST.json with", len(CHECKS), "checks")
