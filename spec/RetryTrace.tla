----------------------------- MODULE RetryTrace -----------------------------
(***************************************************************************)
(* Validation of traces recorded from the real retry loop.                 *)
(*                                                                         *)
(* TRACE_FILE: JSON array of {cfg: <configuration record>, ev: [events]}.  *)
(*  verdict      m.viol: clauses of the property monitors (RetryMon) that  *)
(*               the recorded event stream violates (P only);              *)
(*  conformance  conf: index of the first event that is not the event M    *)
(*               (RetryLoop) produces for the same environment choices,    *)
(*               0 if the whole trace is a behaviour of M.  The sets from  *)
(*               which M's environment chooses are bound to the logged     *)
(*               event, so the search is linear in the trace length.       *)
(***************************************************************************)
EXTENDS Integers, Sequences, FiniteSets, TLC, Json, IOUtils, SequencesExt

CONSTANT NTraces

Traces == JsonDeserialize(IOEnv.TRACE_FILE)

VARIABLES tid, l, m, s, conf
vars == <<tid, l, m, s, conf>>

Mon == INSTANCE RetryMon

Cfg(i) == LET j == Traces[i].cfg IN
          [j EXCEPT !.strat = ToSet(j.strat), !.legacy = ToSet(j.legacy), !.adaptive = ToSet(j.adaptive)]

Cur == Traces[tid].ev[l]
Is(kind) == l <= Len(Traces[tid].ev) /\ Cur.e = kind

NDeliver(i) == Cardinality({x \in 1..Len(Traces[i].ev) : Traces[i].ev[x].e = "deliver"})

L == INSTANCE RetryLoop WITH
        Classes <- Mon!AllClasses,
        Outs  <- IF Is("invoke") THEN {[out |-> Cur.out, k |-> Cur.k, ra |-> Cur.ra]} ELSE {},
        Durs  <- IF Is("invoke") THEN {Cur.dur} ELSE {},
        CDurs <- IF Is("classify") \/ Is("rclassify") THEN {Cur.dur} ELSE {},
        EDurs <- IF Is("emit") THEN {Cur.dur} ELSE {},
        Rets  <- IF Is("strategy") THEN {Cur.ret} ELSE {},
        Advs  <- IF Is("sleep") THEN {Cur.adv} ELSE {},
        Decs  <- IF Is("handler") THEN {Cur.dec} ELSE {},
        BFaults <- IF Is("bsleep") THEN {Cur.fault} ELSE {},
        Ras   <- {},
        Modes <- IF Is("deliver") THEN {Cur.mode} ELSE {},
        NRuns <- NDeliver(tid),
        RunGaps <- IF Is("deliver") THEN {Cur.gap} ELSE {}

\* with attempt hooks the delivery style matters from the start: it is the style of the
\* trace's first delivery
FirstMode(i) ==
    LET ds == {x \in 1..Len(Traces[i].ev) : Traces[i].ev[x].e = "deliver"} IN
    IF ds = {} THEN "exec" ELSE Traces[i].ev[CHOOSE x \in ds : \A y \in ds : x <= y].mode

Init == /\ tid \in 1..NTraces
        /\ l = 1
        /\ m = Mon!MInit
        /\ s = IF Cfg(tid).hooks THEN L!SInitM(Cfg(tid), FirstMode(tid)) ELSE L!SInit(Cfg(tid))
        /\ conf = 0

Step ==
    /\ l <= Len(Traces[tid].ev)
    /\ LET c  == Cfg(tid)
           e  == Cur
           ps == IF conf = 0 THEN {p \in L!MStep(c, s) : p[1] = e} ELSE {}
       IN  /\ m' = Mon!MonStep(c, m, e)
           /\ IF ps # {} THEN s' = (CHOOSE p \in ps : TRUE)[2] /\ conf' = conf
                         ELSE s' = s /\ conf' = (IF conf = 0 THEN l ELSE conf)
    /\ l' = l + 1
    /\ UNCHANGED tid

Spec == Init /\ [][Step]_vars

Report ==
    (l = Len(Traces[tid].ev) + 1) =>
        PrintT(<<"VERDICT", ToJson([tid |-> tid, viol |-> m.viol, conf |-> conf,
                                    complete |-> (s.pc = "done" \/ conf # 0)])>>)
=============================================================================
