------------------------------- MODULE CapsIndX -------------------------------
(***************************************************************************)
(* TLC cross-check binding the symbolic proof's counter logic (CapsInd) to *)
(* the model the code is validated against (RetryLoop.tla): on a grid of   *)
(* counters, attempt numbers and caps, the operators of CapsInd give the   *)
(* same values as NotedFor / EarlyStop / LateStop of RetryLoop (with the   *)
(* deadline far away and a strategy for every class, so that only the      *)
(* counters decide).  Evaluated as an ASSUME: no behaviour is needed.      *)
(***************************************************************************)
EXTENDS CapsInd, TLC

RealClasses == {"TRANSIENT", "RATE_LIMIT", "UNKNOWN", "PERMANENT", "AUTH"}
L == INSTANCE RetryLoop WITH Classes <- RealClasses, Outs <- {}, Durs <- {0}, CDurs <- {0}, EDurs <- {0},
                             Rets <- {}, Advs <- {}, Decs <- {}, BFaults <- {}, Ras <- {}, Modes <- {"exec"},
                             NRuns <- 1, RunGaps <- {0}

\* the abstract class of a real class
Abs(k) == IF k = "UNKNOWN" THEN "U" ELSE IF k \in L!NonRetry THEN "P" ELSE IF k = "TRANSIENT" THEN "T" ELSE "R"

Conf(maxatt, maxunk, k, lim) ==
    [maxAtt |-> maxatt, lim |-> [j \in RealClasses |-> IF j = k THEN lim ELSE -1], maxUnk |-> maxunk,
     D |-> 1000, hasDefault |-> TRUE, strat |-> {}, legacy |-> {}, budget |-> -1, bW |-> 100000,
     handler |-> FALSE, abort |-> FALSE, rc |-> TRUE, bsleep |-> FALSE, opname |-> FALSE, hooks |-> FALSE,
     adaptive |-> {}]

Grid == 0..3
SameLogic ==
    \A maxatt \in 1..4, maxunk \in {-1} \cup Grid, lim \in {-1} \cup Grid, k \in RealClasses,
       c0 \in Grid, u \in Grid, a \in 1..4 :
        LET c  == Conf(maxatt, maxunk, k, lim)
            s  == [L!SInit(c) EXCEPT !.cnt[k] = c0, !.unk = u, !.att = a]
            s1 == L!NotedFor(c, s, k, "exception", -1)
        IN  /\ s1.cnt[k] = c0 + 1
            /\ s1.unk = NoteUnkP(lim, Abs(k), c0 + 1, u)
            /\ (L!EarlyStop(c, s1, k) # "-") = EarlyMustP(lim, maxunk, Abs(k), s1.cnt[k], s1.unk)
            /\ (L!LateStop(c, s1) # "-") = LateMustP(maxatt, a)
            /\ (L!HardStop(c, s1, k) # "-") = (EarlyMustP(lim, maxunk, Abs(k), s1.cnt[k], s1.unk) \/ LateMustP(maxatt, a))
ASSUME SameLogic

allvars == <<att, cnt, unk, lk, phase, inv, g, nonretry, bad>>
XSpec == Init /\ [][UNCHANGED allvars]_allvars
=============================================================================
