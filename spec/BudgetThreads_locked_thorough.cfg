SPECIFICATION Spec
CONSTANTS
  Threads = {1, 2, 3}
  Scenarios <- AllScenarios
  Locked = TRUE
INVARIANT MutualExclusion
INVARIANT Linearizable
INVARIANT NoOverGrant
