SPECIFICATION Spec
CONSTANTS
  Classes <- Classes4
  Outs <- OutsC03
  Durs = {0, 1}
  CDurs <- ZeroDur
  EDurs <- ZeroDur
  Rets <- RetsOne
  Advs <- AdvsExact
  Decs <- DecsAll
  BFaults <- BFaultsNone
  Ras <- RasNone
  Modes = {"call", "exec"}
  RunGaps <- GapsNone
  NRuns = 1
  Configs <- ConfigsC03
  RecordHist = FALSE
INVARIANT NoViolation
INVARIANT AttemptsBounded
INVARIANT InvokeWithinDeadline
INVARIANT SleepWithinRemaining
INVARIANT DeliveriesRelated
CHECK_DEADLOCK FALSE
