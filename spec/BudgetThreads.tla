---------------------------- MODULE BudgetThreads ----------------------------
(***************************************************************************)
(* C17 at design level: the public methods of Budget (budget.py) as a      *)
(* PlusCal algorithm with one label per source line (label name = method + *)
(* line offset from its `def`), an explicit lock, and N threads each       *)
(* running one operation from a common initial deque.                      *)
(*                                                                         *)
(* TLC checks over all line-level interleavings:                           *)
(*   MutualExclusion   at most one thread is inside a locked region;       *)
(*   Linearizable      when all threads are done, results and final deque  *)
(*                     equal those of some sequential order of the same    *)
(*                     operations executed atomically by Budget!UApply;    *)
(*   NoOverGrant       the deque never holds more than max_retries tokens  *)
(*                     of the current window;                              *)
(*   no deadlock.                                                          *)
(* With Locked = FALSE TLC finds the races (two consume() calls both pass  *)
(* the capacity test) - BudgetThreads_nolock.cfg is the vacuity guard and  *)
(* must FAIL.  BudgetThreadTrace.tla validates the scheduler's line events *)
(* of real runs against the labels.                                        *)
(***************************************************************************)
EXTENDS Integers, Sequences, FiniteSets, TLC

CONSTANTS Threads, Scenarios, Locked
\* a scenario: [cfg : [max, W], init : Seq(Nat), clock : Nat, prog : [Threads -> [op, cost]]]

U == INSTANCE Budget

(* --algorithm BudgetThreads
variables sc \in Scenarios,
          events = sc.init, lock = 0,
          res = [t \in Threads |-> -9];

define
  Cfg == sc.cfg
  Clock == sc.clock
end define;

macro ret(v) begin res[self] := v; end macro;

process th \in Threads
variables now = -1, cutoff = 0, op = "-", cost = 0, i = 0;
begin
 start:    op := sc.prog[self].op; cost := sc.prog[self].cost;
 dispatch: if op = "consume" then goto consume1 else goto remaining1 end if;

 \* ---- consume(cost) ----------------------------------------------------------
 consume1:  skip;                                 \* if cost < 1: (valid costs only)
 consume3:  now := Clock;
 consume4:  skip;                                 \* the `with self._lock` line is reached ...
 consume4a: await ~Locked \/ lock = 0; if Locked then lock := self end if;   \* ... and acquired
 consume5:  cutoff := now - Cfg.W;                \* self._prune(now)
 cprune:    if events # <<>> /\ Head(events) <= cutoff then events := Tail(events); goto cprune
            else goto consume6 end if;
 consume6:  if Len(events) + cost > Cfg.max then goto consume7 else goto consume8 end if;
 consume7:  ret(0); goto release;
 consume8:  if i < cost then goto consume9 else goto consume10 end if;      \* for _ in range(cost)
 consume9:  events := Append(events, now); i := i + 1; goto consume8;
 consume10: ret(1); goto release;

 \* ---- remaining() ------------------------------------------------------------
 remaining1:  now := Clock;
 remaining2:  skip;
 remaining2a: await ~Locked \/ lock = 0; if Locked then lock := self end if;
 remaining3:  cutoff := now - Cfg.W;              \* self._prune(now)
 rprune:      if events # <<>> /\ Head(events) <= cutoff then events := Tail(events); goto rprune
              else goto remaining4 end if;
 remaining4:  ret(IF Cfg.max - Len(events) > 0 THEN Cfg.max - Len(events) ELSE 0);

 release: if Locked then lock := 0 end if;
end process;
end algorithm; *)
\* BEGIN TRANSLATION
VARIABLES pc, sc, events, lock, res

(* define statement *)
Cfg == sc.cfg
Clock == sc.clock

VARIABLES now, cutoff, op, cost, i

vars == << pc, sc, events, lock, res, now, cutoff, op, cost, i >>

ProcSet == (Threads)

Init == (* Global variables *)
        /\ sc \in Scenarios
        /\ events = sc.init
        /\ lock = 0
        /\ res = [t \in Threads |-> -9]
        (* Process th *)
        /\ now = [self \in Threads |-> -1]
        /\ cutoff = [self \in Threads |-> 0]
        /\ op = [self \in Threads |-> "-"]
        /\ cost = [self \in Threads |-> 0]
        /\ i = [self \in Threads |-> 0]
        /\ pc = [self \in ProcSet |-> "start"]

start(self) == /\ pc[self] = "start"
               /\ op' = [op EXCEPT ![self] = sc.prog[self].op]
               /\ cost' = [cost EXCEPT ![self] = sc.prog[self].cost]
               /\ pc' = [pc EXCEPT ![self] = "dispatch"]
               /\ UNCHANGED << sc, events, lock, res, now, cutoff, i >>

dispatch(self) == /\ pc[self] = "dispatch"
                  /\ IF op[self] = "consume"
                        THEN /\ pc' = [pc EXCEPT ![self] = "consume1"]
                        ELSE /\ pc' = [pc EXCEPT ![self] = "remaining1"]
                  /\ UNCHANGED << sc, events, lock, res, now, cutoff, op, cost, 
                                  i >>

consume1(self) == /\ pc[self] = "consume1"
                  /\ TRUE
                  /\ pc' = [pc EXCEPT ![self] = "consume3"]
                  /\ UNCHANGED << sc, events, lock, res, now, cutoff, op, cost, 
                                  i >>

consume3(self) == /\ pc[self] = "consume3"
                  /\ now' = [now EXCEPT ![self] = Clock]
                  /\ pc' = [pc EXCEPT ![self] = "consume4"]
                  /\ UNCHANGED << sc, events, lock, res, cutoff, op, cost, i >>

consume4(self) == /\ pc[self] = "consume4"
                  /\ TRUE
                  /\ pc' = [pc EXCEPT ![self] = "consume4a"]
                  /\ UNCHANGED << sc, events, lock, res, now, cutoff, op, cost, 
                                  i >>

consume4a(self) == /\ pc[self] = "consume4a"
                   /\ ~Locked \/ lock = 0
                   /\ IF Locked
                         THEN /\ lock' = self
                         ELSE /\ TRUE
                              /\ lock' = lock
                   /\ pc' = [pc EXCEPT ![self] = "consume5"]
                   /\ UNCHANGED << sc, events, res, now, cutoff, op, cost, i >>

consume5(self) == /\ pc[self] = "consume5"
                  /\ cutoff' = [cutoff EXCEPT ![self] = now[self] - Cfg.W]
                  /\ pc' = [pc EXCEPT ![self] = "cprune"]
                  /\ UNCHANGED << sc, events, lock, res, now, op, cost, i >>

cprune(self) == /\ pc[self] = "cprune"
                /\ IF events # <<>> /\ Head(events) <= cutoff[self]
                      THEN /\ events' = Tail(events)
                           /\ pc' = [pc EXCEPT ![self] = "cprune"]
                      ELSE /\ pc' = [pc EXCEPT ![self] = "consume6"]
                           /\ UNCHANGED events
                /\ UNCHANGED << sc, lock, res, now, cutoff, op, cost, i >>

consume6(self) == /\ pc[self] = "consume6"
                  /\ IF Len(events) + cost[self] > Cfg.max
                        THEN /\ pc' = [pc EXCEPT ![self] = "consume7"]
                        ELSE /\ pc' = [pc EXCEPT ![self] = "consume8"]
                  /\ UNCHANGED << sc, events, lock, res, now, cutoff, op, cost, 
                                  i >>

consume7(self) == /\ pc[self] = "consume7"
                  /\ res' = [res EXCEPT ![self] = 0]
                  /\ pc' = [pc EXCEPT ![self] = "release"]
                  /\ UNCHANGED << sc, events, lock, now, cutoff, op, cost, i >>

consume8(self) == /\ pc[self] = "consume8"
                  /\ IF i[self] < cost[self]
                        THEN /\ pc' = [pc EXCEPT ![self] = "consume9"]
                        ELSE /\ pc' = [pc EXCEPT ![self] = "consume10"]
                  /\ UNCHANGED << sc, events, lock, res, now, cutoff, op, cost, 
                                  i >>

consume9(self) == /\ pc[self] = "consume9"
                  /\ events' = Append(events, now[self])
                  /\ i' = [i EXCEPT ![self] = i[self] + 1]
                  /\ pc' = [pc EXCEPT ![self] = "consume8"]
                  /\ UNCHANGED << sc, lock, res, now, cutoff, op, cost >>

consume10(self) == /\ pc[self] = "consume10"
                   /\ res' = [res EXCEPT ![self] = 1]
                   /\ pc' = [pc EXCEPT ![self] = "release"]
                   /\ UNCHANGED << sc, events, lock, now, cutoff, op, cost, i >>

remaining1(self) == /\ pc[self] = "remaining1"
                    /\ now' = [now EXCEPT ![self] = Clock]
                    /\ pc' = [pc EXCEPT ![self] = "remaining2"]
                    /\ UNCHANGED << sc, events, lock, res, cutoff, op, cost, i >>

remaining2(self) == /\ pc[self] = "remaining2"
                    /\ TRUE
                    /\ pc' = [pc EXCEPT ![self] = "remaining2a"]
                    /\ UNCHANGED << sc, events, lock, res, now, cutoff, op, 
                                    cost, i >>

remaining2a(self) == /\ pc[self] = "remaining2a"
                     /\ ~Locked \/ lock = 0
                     /\ IF Locked
                           THEN /\ lock' = self
                           ELSE /\ TRUE
                                /\ lock' = lock
                     /\ pc' = [pc EXCEPT ![self] = "remaining3"]
                     /\ UNCHANGED << sc, events, res, now, cutoff, op, cost, i >>

remaining3(self) == /\ pc[self] = "remaining3"
                    /\ cutoff' = [cutoff EXCEPT ![self] = now[self] - Cfg.W]
                    /\ pc' = [pc EXCEPT ![self] = "rprune"]
                    /\ UNCHANGED << sc, events, lock, res, now, op, cost, i >>

rprune(self) == /\ pc[self] = "rprune"
                /\ IF events # <<>> /\ Head(events) <= cutoff[self]
                      THEN /\ events' = Tail(events)
                           /\ pc' = [pc EXCEPT ![self] = "rprune"]
                      ELSE /\ pc' = [pc EXCEPT ![self] = "remaining4"]
                           /\ UNCHANGED events
                /\ UNCHANGED << sc, lock, res, now, cutoff, op, cost, i >>

remaining4(self) == /\ pc[self] = "remaining4"
                    /\ res' = [res EXCEPT ![self] = IF Cfg.max - Len(events) > 0 THEN Cfg.max - Len(events) ELSE 0]
                    /\ pc' = [pc EXCEPT ![self] = "release"]
                    /\ UNCHANGED << sc, events, lock, now, cutoff, op, cost, i >>

release(self) == /\ pc[self] = "release"
                 /\ IF Locked
                       THEN /\ lock' = 0
                       ELSE /\ TRUE
                            /\ lock' = lock
                 /\ pc' = [pc EXCEPT ![self] = "Done"]
                 /\ UNCHANGED << sc, events, res, now, cutoff, op, cost, i >>

th(self) == start(self) \/ dispatch(self) \/ consume1(self)
               \/ consume3(self) \/ consume4(self) \/ consume4a(self)
               \/ consume5(self) \/ cprune(self) \/ consume6(self)
               \/ consume7(self) \/ consume8(self) \/ consume9(self)
               \/ consume10(self) \/ remaining1(self) \/ remaining2(self)
               \/ remaining2a(self) \/ remaining3(self) \/ rprune(self)
               \/ remaining4(self) \/ release(self)

(* Allow infinite stuttering to prevent deadlock on termination. *)
Terminating == /\ \A self \in ProcSet: pc[self] = "Done"
               /\ UNCHANGED vars

Next == (\E self \in Threads: th(self))
           \/ Terminating

Spec == Init /\ [][Next]_vars

Termination == <>(\A self \in ProcSet: pc[self] = "Done")

\* END TRANSLATION

(***************************************************************************)
(* Properties                                                              *)
(***************************************************************************)
InLocked(t) == pc[t] \notin {"start", "dispatch", "consume1", "consume3", "consume4", "consume4a",
                             "remaining1", "remaining2", "remaining2a", "Done"}
MutualExclusion == Locked => \A a, b \in Threads : (a # b /\ InLocked(a)) => ~InLocked(b)

AllDone == \A t \in Threads : pc[t] = "Done"

Perms == { f \in [1..Cardinality(Threads) -> Threads] : \A a, b \in DOMAIN f : a # b => f[a] # f[b] }

RECURSIVE Explains(_, _, _)
Explains(order, j, q0) ==
    IF j > Len(order) THEN q0 = events
    ELSE LET t == order[j]
             r == U!UApply(sc.cfg, q0, sc.prog[t].op, sc.prog[t].cost, sc.clock)
         IN  r.ret = res[t] /\ Explains(order, j + 1, r.q)

Linearizable == AllDone => \E f \in Perms : Explains([j \in 1..Cardinality(Threads) |-> f[j]], 1, sc.init)

\* tokens of the current window never exceed max_retries (all threads share one clock value)
NoOverGrant == AllDone =>
    Cardinality({j \in 1..Len(events) : sc.clock - events[j] < sc.cfg.W}) <= sc.cfg.max

(***************************************************************************)
(* Scenarios: every pair (triple) of operations from every relevant deque  *)
(***************************************************************************)
Cfgs == { [max |-> m, W |-> 4] : m \in {0, 1, 2, 3} }
Inits == { <<>>, <<0>>, <<3>>, <<0, 3>>, <<3, 3>>, <<0, 0, 3>> }
Ops == { [op |-> "consume", cost |-> 1], [op |-> "consume", cost |-> 2], [op |-> "remaining", cost |-> 0] }
AllScenarios == { s \in { [cfg |-> c, init |-> q, clock |-> 4, prog |-> p] :
                           c \in Cfgs, q \in Inits, p \in [Threads -> Ops] } : Len(s.init) <= s.cfg.max }
=============================================================================
