----------------------------- MODULE BreakerMC -----------------------------
(***************************************************************************)
(* Model-checking wrapper for Breaker.tla.                                 *)
(*                                                                         *)
(*  - the environment chooses a configuration (Init), clock advances and   *)
(*    the sequence of public operations;                                   *)
(*  - M (B-ops) and P (R-ops) run in lock step; `viol` is the judgement of the   *)
(*    last operation.  NoViolation is "M |= C06 /\ C07".                   *)
(*  - with Export = TRUE every transition is printed as one JSON line      *)
(*    (pre-state, operation, observation, post-state); the harness walks   *)
(*    that graph on the real CircuitBreaker.                               *)
(***************************************************************************)
EXTENDS Breaker, TLC, Json, SequencesExt

CONSTANTS MaxNow,      \* bound on the clock
          MaxDepth,    \* bound on behaviour length
          Export,      \* print the labelled transition graph
          Profile      \* which configuration family

VARIABLES cid, b, r, now, last, viol
vars == <<cid, b, r, now, last, viol>>

NoThr == [k \in ClassSet |-> 0]

ConfigsQuick ==
    { [thr |-> th, W |-> w, R |-> rr, trip |-> tr, cthr |-> ct] :
        th \in 1..3, w \in {2}, rr \in {1, 3},
        tr \in {{"A"}, {"A", "B"}},
        ct \in {NoThr, [NoThr EXCEPT !["A"] = 2], [NoThr EXCEPT !["B"] = 1]} }

ConfigsFull ==
    { [thr |-> th, W |-> w, R |-> rr, trip |-> tr, cthr |-> ct] :
        th \in 1..3, w \in {2, 3}, rr \in {1, 2, 4},
        tr \in {{"A"}, {"A", "B"}, {}},
        ct \in {NoThr, [NoThr EXCEPT !["A"] = 1], [NoThr EXCEPT !["A"] = 2],
                [NoThr EXCEPT !["B"] = 1], [NoThr EXCEPT !["A"] = 2, !["B"] = 2]} }

Configs == IF Profile = "quick" THEN ConfigsQuick ELSE ConfigsFull
CfgSeq  == SetToSeq(Configs)
cfg     == CfgSeq[cid]

ASSUME PrintT(<<"CONFIGS", ToJson(CfgSeq)>>)

NoOp == [op |-> "init", k |-> "-", t |-> 0, allowed |-> TRUE, ev |-> "-", state |-> "closed"]

Init ==
    /\ cid \in 1..Len(CfgSeq)
    /\ b = BInit
    /\ r = RInit
    /\ now = 0
    /\ last = NoOp
    /\ viol = {}

Do(op, k) ==
    LET res == BApply(cfg, b, op, k, now) IN
    /\ b' = res.b
    /\ last' = [op |-> op, k |-> k, t |-> now, allowed |-> res.allowed,
                ev |-> res.ev, state |-> res.b.st]
    /\ viol' = RJudge(cfg, r, op, k, now, res.allowed, res.ev, res.b.st)
    /\ r' = RNext(cfg, r, op, k, now, res.allowed, res.b.st)
    /\ UNCHANGED <<cid, now>>

Allow      == Do("allow", "-")
RecSuccess == Do("ok", "-")
RecCancel  == Do("cancel", "-")
RecFailure == \E k \in ClassSet : Do("fail", k)

\* the clock only moves forward; one advance covers every ordering and equality
\* with W and R because both are <= MaxTick
MaxTick == 1 + (IF cfg.W > cfg.R THEN cfg.W ELSE cfg.R)
Tick == \E d \in 1..MaxTick :
           /\ now + d <= MaxNow
           /\ now' = now + d
           /\ last' = [last EXCEPT !.op = "tick", !.t = now + d]
           /\ viol' = {}
           /\ UNCHANGED <<cid, b, r>>

Next == Allow \/ RecSuccess \/ RecFailure \/ RecCancel \/ Tick

Spec == Init /\ [][Next]_vars

DepthBound == TLCGet("level") <= MaxDepth

(***************************************************************************)
(* Properties                                                              *)
(***************************************************************************)
NoViolation == viol = {}                       \* M |= C06 /\ C07 (clause by clause)
TypeOK      == BTypeOK(cfg, b)
RefInSync   == r.phase = b.st /\ (b.st = "half" => r.out = b.probe)
                /\ (b.st = "open" => r.t0 = b.openedAt)

\* C06 as an action property, stated directly on M and the reference log
OpensOnlyByRule ==
    [][ (b.st = "closed" /\ b'.st # "closed")
          => /\ last'.op = "fail"
             /\ b'.st = "open"
             /\ ShouldOpen(cfg, r.log, last'.k, now) ]_vars
OpensWheneverRule ==
    [][ (b.st = "closed" /\ last'.op = "fail" /\ ShouldOpen(cfg, r.log, last'.k, now))
          => b'.st = "open" ]_vars
\* successes, cancels and admissions while closed change nothing
ClosedInertOnOthers ==
    [][ (b.st = "closed" /\ last'.op \in {"ok", "cancel", "allow"}) => b' = b ]_vars

\* C07 as action properties on M
RejectsWhileOpen ==
    [][ (b.st = "open" /\ last'.op = "allow" /\ now - b.openedAt < cfg.R)
          => (~last'.allowed /\ b' = b) ]_vars
OneProbe ==
    [][ (b.st = "half" /\ b.probe /\ last'.op = "allow") => ~last'.allowed ]_vars
ProbeSuccessCloses ==
    [][ (b.st = "half" /\ last'.op = "ok") => (b'.st = "closed" /\ b'.fails = <<>>) ]_vars
ProbeFailureReopens ==
    [][ (b.st = "half" /\ last'.op = "fail") => (b'.st = "open" /\ b'.openedAt = now) ]_vars

(***************************************************************************)
(* Graph export                                                            *)
(***************************************************************************)
StateRec(cc, bb, nn) == [c |-> cc, st |-> bb.st, oa |-> bb.openedAt, pr |-> bb.probe,
                         f |-> bb.fails, cf |-> bb.cfails, now |-> nn]
ExportEdge ==
    Export => PrintT(<<"EDGE", ToJson([pre  |-> StateRec(cid, b, now),
                                       lastop |-> last.op,
                                       ev   |-> last',
                                       post |-> StateRec(cid', b', now')])>>)
=============================================================================
