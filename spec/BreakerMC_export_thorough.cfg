SPECIFICATION Spec
CONSTANTS
  ClassSet = {"A", "B", "C"}
  MaxNow = 7
  MaxDepth = 6
  Export = TRUE
  Profile = "quick"
CONSTRAINT DepthBound
ACTION_CONSTRAINT ExportEdge
INVARIANT NoViolation
CHECK_DEADLOCK FALSE
