------------------------------ MODULE RetryMC ------------------------------
(***************************************************************************)
(* Model-checking wrapper: RetryLoop (M) composed with RetryMon (P).       *)
(*                                                                         *)
(*   Next == \E <<event, s'>> \in MStep(cfg, s) : ev' = event              *)
(*                                               /\ mon' = MonStep(mon, ev')*)
(*   NoViolation == mon.viol = {}          (M |= every monitored clause)   *)
(*                                                                         *)
(* The configuration is chosen in Init from `Configs`; environment sets    *)
(* (Outs, Durs, Rets, ...) are constants overridden per focused .cfg.      *)
(* With RecordHist = TRUE the event history is kept and every terminal     *)
(* behaviour is printed as one JSON line (scenario + predicted trace).     *)
(***************************************************************************)
EXTENDS RetryLoop, Json, SequencesExt

CONSTANTS Configs, RecordHist

Mon == INSTANCE RetryMon

VARIABLES cid, s, ev, hist, mon
vars == <<cid, s, ev, hist, mon>>

CfgSeq == SetToSeq(Configs)
cfg    == CfgSeq[cid]

ASSUME PrintT(<<"CONFIGS", ToJson(CfgSeq)>>)

Init == /\ cid \in 1..Len(CfgSeq)
        /\ \E md \in Modes : s = IF CfgSeq[cid].hooks THEN SInitM(CfgSeq[cid], md) ELSE SInit(CfgSeq[cid])
        /\ ev = [e |-> "start"]
        /\ hist = <<>>
        /\ mon = Mon!MInit

Next == \E p \in MStep(cfg, s) :
            /\ ev' = p[1]
            /\ s' = p[2]
            /\ hist' = IF RecordHist THEN Append(hist, p[1]) ELSE hist
            /\ mon' = Mon!MonStep(cfg, mon, p[1])
            /\ UNCHANGED cid

Spec == Init /\ [][Next]_vars

NoViolation == mon.viol = {}

Terminal == s.pc = "done"
ExportBehaviours ==
    (RecordHist /\ Terminal) => PrintT(<<"BEH", ToJson([c |-> cid, h |-> hist])>>)

(***************************************************************************)
(* Direct statements of some properties on M's own state (independent of   *)
(* the monitors)                                                           *)
(***************************************************************************)
\* C12 on M: the two delivery styles are related at every delivery point
DeliveriesRelated == (s.pc = "deliver") => Related(CallView(s), ExecView(s))
AttemptsBounded == s.ninv <= cfg.maxAtt
InvokeWithinDeadline == (ev.e = "invoke") => ev.t <= cfg.D
SleepWithinRemaining == (ev.e = "sleep") => (ev.s >= 0 /\ ev.s <= cfg.D)

(***************************************************************************)
(* Building blocks for focused configurations                              *)
(***************************************************************************)
Inf == 1000
NoLim == [k \in Classes |-> None]
Base == [maxAtt |-> 3, lim |-> NoLim, maxUnk |-> None, D |-> Inf, hasDefault |-> TRUE,
         strat |-> {}, legacy |-> {}, budget |-> None, bW |-> 100000, handler |-> FALSE, abort |-> FALSE,
         rc |-> FALSE, bsleep |-> FALSE, opname |-> TRUE, hooks |-> FALSE, adaptive |-> {}]

Val(n) == [kind |-> "val", v |-> n]
Out(o, k, ra) == [out |-> o, k |-> k, ra |-> ra]
OkOut == Out("ok", "-", None)
FailOuts(kinds, classes, ras) == { Out(o, k, ra) : o \in kinds, k \in classes, ra \in ras }

RetsOne == {Val(1)}
RetsTwoSmall == {Val(0), Val(2)}
RetsWin == {Val(3)}          \* a back-off as long as the budget window of ConfigsC10y
RasNone == {None}
ZeroDur == {0}
SomeDur == {0, 2}
BFaultsNone == {"none"}
BFaultsAll == {"none", "error", "kbd", "sysexit", "cancel"}
AdvsExact == {"exact"}
AdvsTwo == {"exact", "none"}      \* a sleeper that returns without time passing
AdvsThree == {"exact", "over4", "none"}
RasSome == {None, 0, 2}
\* ---- C01: caps ---------------------------------------------------------
ClassesCaps == {"TRANSIENT", "RATE_LIMIT", "UNKNOWN", "PERMANENT"}
OutsCaps == {OkOut} \cup FailOuts({"exc", "res"}, ClassesCaps, {None})
ConfigsC01 ==
    { [Base EXCEPT !.maxAtt = ma, !.rc = TRUE, !.maxUnk = mu,
                   \* (a per-class entry for a non-retryable class does not make it retryable)
                   !.lim = [NoLim EXCEPT !["TRANSIENT"] = la, !["RATE_LIMIT"] = lb, !["PERMANENT"] = lp]] :
        ma \in 0..4, la \in {None, 0, 1, 2}, lb \in {None, 1}, lp \in {None, 2}, mu \in {None, 0, 1, 2} }
ConfigsC01Small ==
    { [Base EXCEPT !.maxAtt = ma, !.rc = TRUE, !.maxUnk = mu,
                   !.lim = [NoLim EXCEPT !["TRANSIENT"] = la, !["RATE_LIMIT"] = lb, !["PERMANENT"] = lp]] :
        ma \in {0, 2, 3}, la \in {None, 0, 1}, lb \in {None, 1}, lp \in {None, 2}, mu \in {None, 1} }

\* ---- shared environment sets --------------------------------------------
T == "TRANSIENT"  R == "RATE_LIMIT"  U == "UNKNOWN"  P == "PERMANENT"
Classes4 == {T, R, U, P}
RetsAll == {Val(0), Val(1), Val(3), Val(2000), Val(-2),
            [kind |-> "nan", v |-> 0], [kind |-> "pinf", v |-> 0], [kind |-> "ninf", v |-> 0]}
RetsThree == {Val(1), Val(3), Val(2000)}
RetsTwo == {Val(1), Val(2000)}
AdvsAll == {"exact", "over1", "over4", "none"}
DecsAll == {"sleep", "defer", "abort"}
DecsSleep == {"sleep"}

\* ---- C02: deadline envelope ----------------------------------------------
OutsC02 == {OkOut, Out("exc", T, None)}
ConfigsC02 == { [Base EXCEPT !.maxAtt = 4, !.D = d] : d \in {0, 1, 2, 4, 8} }
ConfigsC02x == { [Base EXCEPT !.maxAtt = ma, !.D = d] : d \in {0, 1, 2, 4, 8}, ma \in {3} }
RetsC02 == {Val(0), Val(1), Val(3), Val(2000), [kind |-> "pinf", v |-> 0]}

\* ---- C03 / C14: interaction model -----------------------------------------
OutsC03 == {OkOut} \cup FailOuts({"exc", "res"}, {T, U, P, R}, {None})
StratTables == { <<TRUE, {}>>, <<TRUE, {T}>>, <<FALSE, {T, U, P}>> }
ConfigsC03 ==
    { [Base EXCEPT !.maxAtt = ma, !.rc = TRUE, !.maxUnk = mu, !.D = d,
                   !.lim = [NoLim EXCEPT ![T] = lt],
                   !.hasDefault = st[1], !.strat = st[2],
                   !.budget = bu, !.handler = ha, !.abort = ab] :
        ma \in 1..3, lt \in {None, 1}, mu \in {None, 1}, d \in {2, Inf},
        st \in StratTables, bu \in {None, 0, 1}, ha \in BOOLEAN, ab \in BOOLEAN }
ConfigsC03x ==
    { [Base EXCEPT !.maxAtt = ma, !.rc = TRUE, !.maxUnk = mu, !.D = d,
                   !.lim = [NoLim EXCEPT ![T] = lt],
                   !.hasDefault = st[1], !.strat = st[2],
                   !.budget = bu, !.handler = ha, !.abort = ab] :
        ma \in {2}, lt \in {None, 1}, mu \in {None, 1}, d \in {2, Inf},
        st \in {<<TRUE, {}>>, <<FALSE, {T, U, P}>>}, bu \in {None, 1}, ha \in BOOLEAN,
        ab \in BOOLEAN }
ConfigsC14x ==
    { [Base EXCEPT !.maxAtt = 3, !.rc = TRUE, !.maxUnk = 1, !.D = d,
                   !.lim = [NoLim EXCEPT ![T] = 1],
                   !.hasDefault = FALSE, !.strat = {T, U, P},
                   !.budget = bu, !.handler = TRUE, !.abort = ab, !.opname = op] :
        d \in {2, Inf}, bu \in {None, 1}, ab \in BOOLEAN, op \in BOOLEAN }

\* ---- C04 / C11: delivery, every stop reason, mixed causes -------------------
OutsC04 == {OkOut} \cup FailOuts({"exc", "res"}, {T, U, P, R}, {None}) \cup {Out("excsame", T, None)}
ConfigsC04 ==
    { [Base EXCEPT !.maxAtt = 3, !.rc = TRUE, !.maxUnk = 1, !.D = d,
                   !.lim = [NoLim EXCEPT ![T] = 1],
                   !.hasDefault = FALSE, !.strat = {T, U, P},
                   !.budget = bu, !.handler = ha, !.abort = ab] :
        d \in {3, Inf}, bu \in {None, 1}, ha \in BOOLEAN, ab \in {FALSE} }
ConfigsC11 ==
    { [Base EXCEPT !.maxAtt = 3, !.rc = TRUE, !.maxUnk = 1, !.D = d,
                   !.lim = [NoLim EXCEPT ![T] = 1],
                   !.hasDefault = FALSE, !.strat = {T, U, P},
                   !.budget = bu, !.handler = ha, !.abort = ab] :
        d \in {3, Inf}, bu \in {None, 1}, ha \in BOOLEAN, ab \in BOOLEAN }
ConfigsC11x ==
    { [Base EXCEPT !.maxAtt = 3, !.rc = TRUE, !.maxUnk = 1, !.D = d,
                   !.lim = [NoLim EXCEPT ![T] = 1],
                   !.hasDefault = FALSE, !.strat = {T, U, P},
                   !.budget = 1, !.handler = ha, !.abort = ab] :
        d \in {3, Inf}, ha \in BOOLEAN, ab \in BOOLEAN }
\* incl. what may propagate out of execute(): cancellation kinds and a RetryExhaustedError raised
\* by the operation itself (nested policy)
OutsC11x == {OkOut} \cup FailOuts({"exc", "res"}, {T, U, R}, {None})
            \cup {Out("nested", "-", None), Out("kbd", "-", None), Out("cancel", "-", None)}

\* ---- C05: which strategy, with which arguments, and what happens to its value --
OutsC05 == {OkOut} \cup FailOuts({"exc", "res"}, {T, R, U}, {None, 0, 2})
OutsC05x == {OkOut, Out("exc", T, None), Out("res", R, 2), Out("exc", U, 0)}
TablesC05 == { <<TRUE, {}, {}>>, <<TRUE, {T}, {}>>, <<FALSE, {T, R, U}, {}>>,
               <<TRUE, {T}, {"default"}>>, <<TRUE, {T, R}, {T}>>, <<FALSE, {T, R, U}, {R, U}>> }
ConfigsC05 ==
    { [Base EXCEPT !.maxAtt = 3, !.rc = TRUE, !.D = 10, !.hasDefault = tb[1], !.strat = tb[2],
                   !.legacy = tb[3], !.handler = ha, !.bsleep = ha] :
        tb \in TablesC05, ha \in BOOLEAN }
ConfigsC05x ==
    { [Base EXCEPT !.maxAtt = 3, !.rc = TRUE, !.D = 10, !.hasDefault = tb[1], !.strat = tb[2],
                   !.legacy = tb[3], !.handler = ha, !.bsleep = ha,
                   \* with a handler: the context-style strategies also take outcome reports
                   !.adaptive = IF ha THEN ({"default"} \cup tb[2]) \ tb[3] ELSE {}] :
        tb \in TablesC05, ha \in BOOLEAN }

\* deadlines and back-offs beyond one day (86400 s = 5,529,600 ticks of 2^-6 s)
TwoDays == 11059200
RetsDay == {Val(1), Val(6000000)}
ConfigsC05y ==
    { [Base EXCEPT !.maxAtt = 3, !.rc = TRUE, !.D = TwoDays, !.hasDefault = tb[1], !.strat = tb[2],
                   !.legacy = tb[3], !.handler = ha, !.bsleep = ha] :
        tb \in { <<TRUE, {}, {}>>, <<TRUE, {T}, {"default"}>> }, ha \in BOOLEAN }

\* ---- C12 / C15: every dimension at small values -------------------------------
OutsC12 == {OkOut, Out("exc", T, None), Out("res", R, 2), Out("exc", U, None), Out("exc", P, None),
            Out("abort", "-", None)}
ConfigsC12 ==
    { [Base EXCEPT !.maxAtt = ma, !.rc = TRUE, !.maxUnk = 1, !.D = d,
                   !.lim = [NoLim EXCEPT ![T] = 1], !.hasDefault = st[1], !.strat = st[2],
                   !.legacy = st[3], !.budget = bu, !.handler = ha, !.bsleep = ha, !.abort = ab] :
        ma \in {2, 3}, d \in {3, Inf}, st \in {<<TRUE, {}, {}>>, <<FALSE, {T, U, P}, {U}>>},
        bu \in {None, 1}, ha \in BOOLEAN, ab \in BOOLEAN }
ConfigsC12x ==
    { [Base EXCEPT !.maxAtt = 2, !.rc = TRUE, !.maxUnk = 1, !.D = d,
                   !.lim = [NoLim EXCEPT ![T] = 1], !.hasDefault = st[1], !.strat = st[2],
                   !.legacy = st[3], !.budget = bu, !.handler = ha, !.bsleep = ha, !.abort = ab,
                   !.hooks = ha,
                   \* with a handler: the context-style strategies also take outcome reports
                   !.adaptive = IF ha THEN ({"default"} \cap (IF st[1] THEN {"default"} ELSE {})) \cup (st[2] \ st[3])
                                ELSE {}] :
        d \in {3, Inf}, st \in {<<TRUE, {}, {}>>, <<FALSE, {T, U, P}, {U}>>, <<FALSE, {}, {}>>},
        bu \in {1}, ha \in BOOLEAN, ab \in BOOLEAN }
OutsC12x == {OkOut, Out("exc", T, None), Out("res", R, 2), Out("exc", U, None), Out("nested", "-", None),
             Out("sysexit", "-", None)}
ConfigsC15x ==
    { [Base EXCEPT !.maxAtt = 3, !.rc = TRUE, !.maxUnk = 1, !.D = d,
                   !.lim = [NoLim EXCEPT ![T] = 1], !.budget = 1, !.handler = ha, !.bsleep = TRUE,
                   !.abort = ab] :
        d \in {3, Inf}, ha \in BOOLEAN, ab \in BOOLEAN }

\* no sleeper configured and a delay of months: the default sleeper gets it in one piece
HalfYear == 1000000000
RetsMonths == {Val(300000000)}
ConfigsC16y == { [Base EXCEPT !.maxAtt = 2, !.rc = TRUE, !.D = HalfYear, !.handler = ha] : ha \in BOOLEAN }
OutsC16y == {OkOut, Out("exc", T, None)}

\* long runs: a hook that keeps raising, event after event
ConfigsC15y ==
    { [Base EXCEPT !.maxAtt = 6, !.rc = TRUE, !.bsleep = TRUE, !.handler = ha] : ha \in BOOLEAN }
OutsC15y == {OkOut, Out("exc", T, None), Out("res", R, None)}

\* ---- C10: policies sharing a rolling-window budget ----------------------------
OutsC10 == {OkOut, Out("exc", T, None), Out("res", T, None)}
ConfigsC10 ==
    { [Base EXCEPT !.maxAtt = ma, !.rc = TRUE, !.budget = bu, !.bW = w] :
        ma \in {3}, bu \in {0, 1, 2}, w \in {2, 3, 5} }
ConfigsC10x ==
    { [Base EXCEPT !.maxAtt = 3, !.rc = TRUE, !.budget = bu, !.bW = w] :
        bu \in {1, 2}, w \in {3} }
GapsC10 == {0, 1, 3}
ConfigsC10y ==
    { [Base EXCEPT !.maxAtt = 3, !.rc = TRUE, !.budget = bu, !.bW = 3] : bu \in {1, 2} }
GapsC10y == {0, 1}
GapsNone == {0}

\* ---- C13: abort and cancellation ---------------------------------------------
OutsC13 == {OkOut, Out("exc", T, None), Out("res", T, None), Out("abort", "-", None),
            Out("cancel", "-", None), Out("kbd", "-", None), Out("sysexit", "-", None),
            Out("nested", "-", None)}
AdvsC13 == {"exact", "kbd", "sysexit", "cancel"}
ConfigsC13 ==
    { [Base EXCEPT !.maxAtt = 3, !.rc = TRUE, !.abort = ab, !.handler = ha, !.bsleep = bs, !.hooks = hk] :
        ab \in BOOLEAN, ha \in BOOLEAN, bs \in BOOLEAN, hk \in BOOLEAN }

\* ---- C16: sleep-handler protocol ------------------------------------------------
OutsC16 == {OkOut, Out("exc", T, None), Out("res", T, None)}
ConfigsC16 ==
    { [Base EXCEPT !.maxAtt = 4, !.rc = TRUE, !.handler = ha, !.bsleep = bs, !.abort = ab] :
        ha \in BOOLEAN, bs \in BOOLEAN, ab \in BOOLEAN }

\* ---- thorough tier: larger constants ------------------------------------------------
ConfigsC01T ==
    { [Base EXCEPT !.maxAtt = ma, !.rc = TRUE, !.maxUnk = mu,
                   !.lim = [NoLim EXCEPT !["TRANSIENT"] = la, !["RATE_LIMIT"] = lb, !["UNKNOWN"] = lu]] :
        ma \in 0..5, la \in {None, 0, 1, 2, 3}, lb \in {None, 1}, mu \in {None, 0, 1, 2}, lu \in {None, 1, 3} }
ConfigsC02T == { [Base EXCEPT !.maxAtt = 5, !.D = d] : d \in {0, 1, 2, 3, 4, 6, 8, 12} }
ConfigsC03T ==
    { [Base EXCEPT !.maxAtt = ma, !.rc = TRUE, !.maxUnk = mu, !.D = d,
                   !.lim = [NoLim EXCEPT ![T] = lt],
                   !.hasDefault = st[1], !.strat = st[2],
                   !.budget = bu, !.handler = ha, !.abort = ab] :
        ma \in 1..4, lt \in {None, 1, 2}, mu \in {None, 1}, d \in {2, 3, Inf},
        st \in StratTables \cup {<<FALSE, {}>>}, bu \in {None, 0, 1, 2}, ha \in BOOLEAN, ab \in BOOLEAN }
ConfigsC04T ==
    { [Base EXCEPT !.maxAtt = ma, !.rc = TRUE, !.maxUnk = 1, !.D = d,
                   !.lim = [NoLim EXCEPT ![T] = 1],
                   !.hasDefault = FALSE, !.strat = {T, U, P},
                   !.budget = bu, !.handler = ha, !.abort = ab] :
        ma \in {3, 4}, d \in {3, Inf}, bu \in {None, 1}, ha \in BOOLEAN, ab \in BOOLEAN }
ConfigsC11T == ConfigsC04T
ConfigsC05T ==
    { [Base EXCEPT !.maxAtt = 4, !.rc = TRUE, !.D = d, !.hasDefault = tb[1], !.strat = tb[2],
                   !.legacy = tb[3], !.handler = ha, !.bsleep = ha] :
        tb \in TablesC05, ha \in BOOLEAN, d \in {10} }
ConfigsC10T ==
    { [Base EXCEPT !.maxAtt = ma, !.rc = TRUE, !.budget = bu, !.bW = w] :
        ma \in {2, 3}, bu \in {0, 1, 2, 3}, w \in {2, 3, 5} }
ConfigsC13T ==
    { [Base EXCEPT !.maxAtt = ma, !.rc = TRUE, !.abort = ab, !.handler = ha, !.bsleep = bs, !.D = d] :
        ma \in {3, 4}, ab \in BOOLEAN, ha \in BOOLEAN, bs \in BOOLEAN, d \in {4, Inf} }
ConfigsC14T ==
    { [Base EXCEPT !.maxAtt = ma, !.rc = TRUE, !.maxUnk = 1, !.D = d,
                   !.lim = [NoLim EXCEPT ![T] = 1],
                   !.hasDefault = hd, !.strat = {T, U, P},
                   !.budget = bu, !.handler = TRUE, !.abort = ab, !.opname = op] :
        ma \in {3, 4}, hd \in BOOLEAN, d \in {2, Inf}, bu \in {None, 1}, ab \in BOOLEAN, op \in BOOLEAN }
ConfigsC16T ==
    { [Base EXCEPT !.maxAtt = ma, !.rc = TRUE, !.handler = ha, !.bsleep = bs, !.abort = ab, !.D = d] :
        ma \in {4, 5}, ha \in BOOLEAN, bs \in BOOLEAN, ab \in BOOLEAN, d \in {5, Inf} }

\* ---- attempt timeouts that fire ("hang"): every stop reason reached through attempts the runner
\* ended itself, mixed with ordinary failures; deadlines below, at and above a multiple of the timeout
OutsHang == {OkOut, Out("hang", U, None), Out("exc", T, None), Out("res", R, None)}
ConfigsHang ==
    { [Base EXCEPT !.maxAtt = ma, !.rc = TRUE, !.maxUnk = mu, !.D = d,
                   !.budget = bu, !.handler = ha, !.abort = ab, !.hooks = hk] :
        ma \in {2, 3}, mu \in {None, 1, 2}, d \in {3, 4, Inf}, bu \in {None, 1},
        ha \in BOOLEAN, ab \in BOOLEAN, hk \in BOOLEAN }

ConfigsHangT ==
    { [Base EXCEPT !.maxAtt = ma, !.rc = TRUE, !.maxUnk = mu, !.D = d, !.lim = [NoLim EXCEPT ![T] = lt],
                   !.budget = bu, !.handler = ha, !.abort = ab, !.hooks = hk, !.bsleep = hk] :
        ma \in {2, 3, 4}, mu \in {None, 1, 2}, lt \in {None, 1}, d \in {3, 4, 5, 6, Inf}, bu \in {None, 1},
        ha \in BOOLEAN, ab \in BOOLEAN, hk \in BOOLEAN }

\* ---- the full product, explored by random simulation -------------------------------------
OutsFull == {OkOut} \cup FailOuts({"exc", "res"}, {T, R, U, P}, {None, 2})
            \cup {Out("abort", "-", None), Out("kbd", "-", None), Out("cancel", "-", None),
                  Out("nested", "-", None), Out("excsame", T, None)}
AdvsFull == {"exact", "over1", "over4", "none", "kbd", "cancel"}
ConfigsFull ==
    { [Base EXCEPT !.maxAtt = ma, !.rc = TRUE, !.maxUnk = mu, !.D = d,
                   !.lim = [NoLim EXCEPT ![T] = lt],
                   !.hasDefault = st[1], !.strat = st[2], !.legacy = st[3],
                   !.budget = bu, !.bW = 3, !.handler = ha, !.bsleep = bs, !.abort = ab, !.opname = op,
                   !.hooks = bs, !.adaptive = IF ab THEN ({"default"} \cup st[2]) \ st[3] ELSE {}] :
        ma \in {2, 3, 4}, lt \in {None, 1}, mu \in {None, 1}, d \in {3, 6, Inf},
        st \in {<<TRUE, {}, {}>>, <<TRUE, {T}, {"default"}>>, <<FALSE, {T, U, P}, {U}>>},
        bu \in {None, 1, 2}, ha \in BOOLEAN, bs \in BOOLEAN, ab \in BOOLEAN, op \in BOOLEAN }
=============================================================================
