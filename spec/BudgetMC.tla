------------------------------ MODULE BudgetMC ------------------------------
(***************************************************************************)
(* Model-checking wrapper for Budget.tla: the environment picks the        *)
(* configuration, clock advances (including 0 and exactly W) and the       *)
(* operations.  NoViolation is "M |= C10".  Export prints M's labelled      *)
(* transition graph for replay on the real Budget.                         *)
(***************************************************************************)
EXTENDS Budget, TLC, Json, SequencesExt

CONSTANTS MaxNow, MaxDepth, Export, Profile

VARIABLES cid, q, g, now, last, viol
vars == <<cid, q, g, now, last, viol>>

ConfigsQuick == { [max |-> m, W |-> w] : m \in 0..3, w \in {2, 3} }
ConfigsFull  == { [max |-> m, W |-> w] : m \in 0..4, w \in {1, 2, 3, 4} }
Configs == IF Profile = "quick" THEN ConfigsQuick ELSE ConfigsFull
CfgSeq  == SetToSeq(Configs)
cfg     == CfgSeq[cid]

ASSUME PrintT(<<"CONFIGS", ToJson(CfgSeq)>>)

Init == /\ cid \in 1..Len(CfgSeq)
        /\ q = UInit
        /\ g = GInit
        /\ now = 0
        /\ last = [op |-> "init", cost |-> 0, t |-> 0, ret |-> 0]
        /\ viol = {}

Do(op, cost) ==
    LET res == UApply(cfg, q, op, cost, now) IN
    /\ q' = res.q
    /\ last' = [op |-> op, cost |-> cost, t |-> now, ret |-> res.ret]
    /\ viol' = GJudge(cfg, g, op, cost, now, res.ret)
    /\ g' = GNext(cfg, g, op, cost, now, res.ret)
    /\ UNCHANGED <<cid, now>>

Consume   == \E cost \in 1..2 : Do("consume", cost)
Remaining == Do("remaining", 0)
Tick == \E d \in 1..(cfg.W + 1) :
           /\ now + d <= MaxNow
           /\ now' = now + d
           /\ last' = [last EXCEPT !.op = "tick", !.t = now + d]
           /\ viol' = {}
           /\ UNCHANGED <<cid, q, g>>

Next == Consume \/ Remaining \/ Tick
Spec == Init /\ [][Next]_vars

DepthBound == TLCGet("level") <= MaxDepth

NoViolation == viol = {}
Bound       == WindowBound(cfg, g)
\* M's deque is exactly the in-window suffix of the grant log
DequeIsWindow == Len(PopOld(q, now - cfg.W)) = InWindow(cfg, g, now)

\* the fold-free formulation used by the symbolic proof (apalache/BudgetInd.tla) is the same
\* function on every reachable deque and every cutoff
PopOldIsSelect ==
    \A cut \in -(cfg.W + 1)..(MaxNow + 1) : PopOld(q, cut) = SelectSeq(q, LAMBDA e : e > cut)

\* capacity returns exactly when grants age out: a refused consume(1) becomes
\* grantable at the first instant the oldest in-window grant is W old, not before
CapacityReturns ==
    [][ (last'.op = "consume" /\ last'.ret = 0 /\ last'.cost = 1 /\ last' # last)
          => InWindow(cfg, g, now) >= cfg.max ]_vars

StateRec(cc, qq, nn) == [c |-> cc, q |-> qq, now |-> nn]
ExportEdge ==
    Export => PrintT(<<"EDGE", ToJson([pre |-> StateRec(cid, q, now), lastop |-> last.op,
                                       ev |-> last', post |-> StateRec(cid', q', now')])>>)
=============================================================================
