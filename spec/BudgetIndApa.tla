----------------------------- MODULE BudgetIndApa -----------------------------
(* Apalache entry point of BudgetInd: the symbolic "any state satisfying IndInv" *)
EXTENDS BudgetInd, Apalache

IndInit == /\ g = Gen(5) /\ q = Gen(5) /\ last \in Int /\ agree \in BOOLEAN
           /\ did = [op |-> "init", cost |-> 0, ret |-> 0]
           /\ IndInv
=============================================================================
