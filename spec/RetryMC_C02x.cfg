SPECIFICATION Spec
CONSTANTS
  Classes <- Classes4
  Outs <- OutsC02
  Durs = {0, 1}
  CDurs <- SomeDur
  EDurs <- SomeDur
  Rets <- RetsThree
  Advs <- AdvsThree
  Decs <- DecsSleep
  BFaults <- BFaultsNone
  Ras <- RasNone
  Modes = {"call", "exec"}
  RunGaps <- GapsNone
  NRuns = 1
  Configs <- ConfigsC02x
  RecordHist = TRUE
INVARIANT NoViolation
INVARIANT ExportBehaviours
CHECK_DEADLOCK FALSE
