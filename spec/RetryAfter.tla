----------------------------- MODULE RetryAfter -----------------------------
(***************************************************************************)
(* C20: Retry-After hints are parsed safely and honoured exactly.          *)
(*                                                                         *)
(* Part 1 - parsing table.  A case is (source, shape, value):              *)
(*   source  attr (exc.retry_after) | headers (exc.headers) | response     *)
(*           (exc.response.headers)                                        *)
(*   shape   container of the header: exact ("Retry-After" key), lower,    *)
(*           upper, mixed (any other casing), mapping_get_raises, pairs (list of tuples), getter     *)
(*           (non-Mapping object with get), items_only, none, nonstr       *)
(*           (value is an int, not a string).  "-" for source attr.        *)
(*   value   category of the supplied value (below).                       *)
(* Expect(case) is the property-level expectation:                         *)
(*   none   no hint;   n  exactly the decimal integer;   zero  0.0;        *)
(*   delta  seconds until the HTTP-date (clamped at 0);                    *)
(*   open   the statement does not fix it: no hint or any non-negative     *)
(*          float.                                                         *)
(* In every case the classifier must not raise.  The harness rotates, per  *)
(* case, the way the exception is a rate-limit error at all: numeric 429   *)
(* under status / status_code / code (int or IntEnum) or the marker type   *)
(* RateLimitError without any status - the expectation does not depend on  *)
(* it.                                                                     *)
(*                                                                         *)
(* Part 2 - honouring.  With hint h, jitter j, random draw u/2 (u in       *)
(* 0..2) and remaining time r (all in ticks, r = -1: no deadline given)    *)
(* retry_after_or returns min(h + u*j/2, r); the property: at least the    *)
(* hint and at most hint + jitter, except where the remaining time is      *)
(* smaller.                                                                *)
(***************************************************************************)
EXTENDS Integers, Sequences, FiniteSets, TLC, Json

Sources == {"attr", "headers", "response"}
Shapes == {"exact", "lower", "upper", "mixed", "mapping_get_raises", "pairs", "getter", "items_only",
           "none", "nonstr"}
StrValues == {"empty", "blanks", "d1", "d10", "d308", "d309", "d310", "d4300", "d4301",
              "padded", "plus", "minus", "minus_big", "underscore", "unicode_digit", "decimal",
              "exponent", "date_past", "date_future", "date_far", "date_rfc850", "date_asctime",
              "date_naive", "date_bigfield", "date_zoned_edge", "garbage", "nul", "hex"}
AttrValues == {"int", "float", "true", "negint", "bigint", "nan", "inf", "none", "list", "obj"}
             \cup StrValues

\* expectation for a string value, once it reaches the parser
ExpectStr(v) ==
    CASE v \in {"empty", "blanks", "decimal", "exponent", "garbage", "nul", "hex"} -> "none"
      [] v = "date_bigfield" -> "none"         \* a date field beyond any calendar (and any C int)
      [] v = "date_zoned_edge" -> "open"       \* representable only in its own zone: no hint or a delay
      [] v \in {"d1", "d10", "d308", "padded"} -> "n"
      [] v \in {"d309", "d310", "d4300", "d4301"} -> "none"      \* beyond float range: no hint
      [] v = "plus" -> "open"                                   \* "+5": not a plain decimal integer
      [] v \in {"minus", "minus_big"} -> "open"                 \* negative: none or 0
      [] v \in {"underscore", "unicode_digit"} -> "open"
      [] v = "date_past" -> "zero"
      [] v \in {"date_future", "date_far", "date_rfc850", "date_asctime", "date_naive"} -> "delta"
      [] OTHER -> "open"

\* is the header visible through this container?
Visible(shape) == shape \in {"exact", "lower", "upper", "mixed", "pairs", "getter", "items_only"}

Expect(src, shape, v) ==
    IF src = "attr" THEN
        CASE v = "int" -> "n" [] v = "float" -> "n" [] v = "negint" -> "zero"
          [] v \in {"true", "bigint", "nan", "inf"} -> "open"
          [] v \in {"none", "list", "obj"} -> "none"
          [] OTHER -> ExpectStr(v)
    ELSE IF shape \in {"none", "mapping_get_raises"} THEN "none"
    ELSE IF shape = "nonstr" THEN "open"
    ELSE IF shape = "items_only" THEN "open"               \* no get(): the statement does not fix it
    ELSE ExpectStr(v)

Cases == { [src |-> "attr", shape |-> "-", v |-> v] : v \in AttrValues }
         \cup { [src |-> s, shape |-> sh, v |-> v] :
                  s \in {"headers", "response"}, sh \in Shapes, v \in StrValues }

(***************************************************************************)
(* Part 2                                                                  *)
(***************************************************************************)
Min(a, b) == IF a < b THEN a ELSE b
\* doubled ticks so that the draw u/2 stays integral
Honoured2(h, j, u, r) == LET raw2 == 2 * h + u * j IN IF r < 0 THEN raw2 ELSE Min(raw2, 2 * r)
Lower2(h, r) == IF r < 0 THEN 2 * h ELSE Min(2 * h, 2 * r)
Upper2(h, j, r) == IF r < 0 THEN 2 * (h + j) ELSE Min(2 * (h + j), 2 * r)

Hints == {0, 1, 3, 10}
Jitters == {0, 1, 4}
Draws == {0, 1, 2}
Remains == {-1, 0, 1, 2, 5, 12, 40}
HonourGrid == { [h |-> h, j |-> j, u |-> u, r |-> r] : h \in Hints, j \in Jitters, u \in Draws, r \in Remains }
HonourOK == \A g \in HonourGrid :
                /\ Honoured2(g.h, g.j, g.u, g.r) >= Lower2(g.h, g.r)
                /\ Honoured2(g.h, g.j, g.u, g.r) <= Upper2(g.h, g.j, g.r)

VARIABLE done
Init == done = FALSE
Next == done = FALSE /\ done' = TRUE
Spec == Init /\ [][Next]_done

Checked == done => HonourOK
Exported ==
    done =>
      /\ \A c \in Cases : PrintT(<<"CASE", ToJson([src |-> c.src, shape |-> c.shape, v |-> c.v,
                                                    expect |-> Expect(c.src, c.shape, c.v)])>>)
      /\ \A g \in HonourGrid : PrintT(<<"HONOUR", ToJson([h |-> g.h, j |-> g.j, u |-> g.u, r |-> g.r,
                                                          lo2 |-> Lower2(g.h, g.r), hi2 |-> Upper2(g.h, g.j, g.r),
                                                          val2 |-> Honoured2(g.h, g.j, g.u, g.r)])>>)
=============================================================================
