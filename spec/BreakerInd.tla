------------------------------ MODULE BreakerInd ------------------------------
(***************************************************************************)
(* C06 / C07 at design level, symbolically (Apalache): the implementation- *)
(* shaped breaker of Breaker.tla (M: pruned deque of failure times, lazily *)
(* pruned class bucket, _opened_at, _probe_in_flight) against what the     *)
(* properties say (P: phase, instant of opening, probe outstanding, the    *)
(* UNPRUNED logs of counted failures since the last transition), for       *)
(* ARBITRARY integer failure_threshold, window, recovery timeout, class    *)
(* threshold and operation times.                                          *)
(*                                                                         *)
(* Classes: "K" has the class threshold CThr (0 = none) and is in trip_on  *)
(* iff KTrip; "L" is in trip_on; "N" is not counted.                       *)
(*                                                                         *)
(* IndInv is inductive (length-1 check from IndInit, length-0 from Init)   *)
(* and contains `agree`: every allow / record_success / record_failure /   *)
(* record_cancel of M had the result, event and successor state P expects: *)
(*   - a closed breaker opens exactly when the counted failures within the *)
(*     last window_s reach the threshold (overall or of the class) - C06   *)
(*   - open rejects until recovery_timeout_s has elapsed, then admits one  *)
(*     probe; others are rejected until the probe is settled; success      *)
(*     closes with empty history, failure re-opens with a fresh timeout -   *)
(*     C07.                                                                *)
(* PopOld of Breaker.tla is written as SelectSeq (equal on the sorted      *)
(* deques that occur; cross-checked by TLC: BreakerMC PopOldIsSelect).     *)
(***************************************************************************)
EXTENDS Integers, Sequences, FiniteSets

CONSTANTS
    \* @type: Int;
    Thr,
    \* @type: Int;
    W,
    \* @type: Int;
    R,
    \* @type: Int;
    CThr,
    \* @type: Bool;
    KTrip

VARIABLES
    \* M
    \* @type: Str;
    st,
    \* @type: Int;
    openedAt,
    \* @type: Bool;
    probe,
    \* @type: Seq(Int);
    fails,
    \* @type: Seq(Int);
    cf,
    \* P
    \* @type: Str;
    phase,
    \* @type: Int;
    t0,
    \* @type: Bool;
    out,
    \* @type: Seq(Int);
    logAll,
    \* @type: Seq(Int);
    logK,
    \* @type: Int;
    last,
    \* @type: Bool;
    agree,
    \* the operation just performed and what M answered (bound to Breaker!BApply by BreakerIndX)
    \* @type: { op: Str, k: Str, allowed: Bool, ev: Str };
    did

ConstInit == Thr \in Nat /\ Thr >= 1 /\ W \in Nat /\ W >= 1 /\ R \in Nat /\ R >= 1
             /\ CThr \in Nat /\ KTrip \in BOOLEAN

\* @type: (Seq(Int), Int) => Seq(Int);
Prune(s, cutoff) == LET \* @type: Int => Bool;
                        Keep(e) == e > cutoff IN SelectSeq(s, Keep)
\* @type: (Seq(Int), Int) => Int;
InWindow(s, t) == Cardinality({i \in DOMAIN s : t - s[i] < W})
\* @type: Seq(Int) => Bool;
Sorted(s) == \A i, j \in DOMAIN s : i < j => s[i] <= s[j]

Counted(k) == k = "L" \/ (k = "K" /\ (KTrip \/ CThr > 0))
HasThr(k) == k = "K" /\ CThr > 0

\* ---- allow() --------------------------------------------------------------
Allow(t) ==
    LET mAllowed == IF st = "open" THEN t - openedAt >= R ELSE IF st = "half" THEN ~probe ELSE TRUE
        mSt      == IF st = "open" /\ t - openedAt >= R THEN "half" ELSE st
        mEv      == IF st = "open" THEN (IF t - openedAt >= R THEN "circuit_half_open" ELSE "circuit_rejected")
                    ELSE IF st = "half" /\ probe THEN "circuit_rejected" ELSE "-"
        pAllowed == IF phase = "open" THEN t - t0 >= R ELSE IF phase = "half" THEN ~out ELSE TRUE
        pSt      == IF phase = "open" /\ t - t0 >= R THEN "half" ELSE phase
        pEv      == IF phase = "open" THEN (IF t - t0 >= R THEN "circuit_half_open" ELSE "circuit_rejected")
                    ELSE IF phase = "half" /\ out THEN "circuit_rejected" ELSE "-"
    IN  /\ st' = mSt
        /\ probe' = IF st = "open" THEN (t - openedAt >= R) ELSE IF st = "half" THEN TRUE ELSE probe
        /\ UNCHANGED <<openedAt, fails, cf, t0, logAll, logK>>
        /\ phase' = pSt
        /\ out' = IF phase = "open" THEN (t - t0 >= R) ELSE IF phase = "half" THEN TRUE ELSE out
        /\ agree' = (agree /\ mAllowed = pAllowed /\ mSt = pSt /\ mEv = pEv)
        /\ did' = [op |-> "allow", k |-> "-", allowed |-> mAllowed, ev |-> mEv]
        /\ last' = t

\* ---- record_success() -------------------------------------------------------
Ok(t) ==
    /\ st' = IF st = "half" THEN "closed" ELSE st
    /\ openedAt' = IF st = "half" THEN -1 ELSE openedAt
    /\ probe' = IF st = "half" THEN FALSE ELSE probe
    /\ fails' = IF st = "half" THEN <<>> ELSE fails
    /\ cf' = IF st = "half" THEN <<>> ELSE cf
    /\ phase' = IF phase = "half" THEN "closed" ELSE phase
    /\ out' = IF phase = "half" THEN FALSE ELSE out
    /\ logAll' = IF phase = "half" THEN <<>> ELSE logAll
    /\ logK' = IF phase = "half" THEN <<>> ELSE logK
    /\ UNCHANGED t0
    /\ agree' = (agree /\ (st = "half") = (phase = "half"))
    /\ did' = [op |-> "ok", k |-> "-", allowed |-> TRUE, ev |-> IF st = "half" THEN "circuit_closed" ELSE "-"]
    /\ last' = t

\* ---- record_cancel() --------------------------------------------------------
Cancel(t) ==
    /\ probe' = IF st = "half" THEN FALSE ELSE probe
    /\ out' = IF phase = "half" THEN FALSE ELSE out
    /\ UNCHANGED <<st, openedAt, fails, cf, phase, t0, logAll, logK>>
    /\ agree' = agree
    /\ did' = [op |-> "cancel", k |-> "-", allowed |-> TRUE, ev |-> "-"]
    /\ last' = t

\* ---- record_failure(k) ------------------------------------------------------
Fail(k, t) ==
    LET fails1  == Append(Prune(fails, t - W), t)
        bucket  == Append(Prune(cf, t - W), t)
        mOpenC  == IF HasThr(k) /\ Len(bucket) >= CThr THEN TRUE ELSE Len(fails1) >= Thr
        mOpens  == st = "half" \/ (st = "closed" /\ Counted(k) /\ mOpenC)
        mNotes  == st = "closed" /\ Counted(k) /\ ~mOpenC
        pShould == Counted(k) /\ (InWindow(logAll, t) + 1 >= Thr
                                  \/ (HasThr(k) /\ InWindow(logK, t) + 1 >= CThr))
        pOpens  == phase = "half" \/ (phase = "closed" /\ pShould)
        pNotes  == phase = "closed" /\ Counted(k) /\ ~pShould
    IN  /\ st' = IF mOpens THEN "open" ELSE st
        /\ openedAt' = IF mOpens THEN t ELSE openedAt
        /\ probe' = IF st = "half" THEN FALSE ELSE probe
        /\ fails' = IF mOpens THEN <<>> ELSE IF mNotes THEN fails1 ELSE fails
        /\ cf' = IF mOpens THEN <<>> ELSE IF mNotes /\ HasThr(k) THEN bucket ELSE cf
        /\ phase' = IF pOpens THEN "open" ELSE phase
        /\ t0' = IF pOpens THEN t ELSE t0
        /\ out' = IF pOpens THEN FALSE ELSE out
        /\ logAll' = IF pOpens THEN <<>> ELSE IF pNotes THEN Append(logAll, t) ELSE logAll
        /\ logK' = IF pOpens THEN <<>> ELSE IF pNotes /\ k = "K" THEN Append(logK, t) ELSE logK
        /\ agree' = (agree /\ mOpens = pOpens)
        /\ did' = [op |-> "fail", k |-> k, allowed |-> TRUE, ev |-> IF mOpens THEN "circuit_opened" ELSE "-"]
        /\ last' = t

\* all integers for the symbolic proof; TLC's cross-check (BreakerIndX) overrides it by a finite set
Times == Int
Next == \E t \in Times : t >= last /\ (\/ Allow(t) \/ Ok(t) \/ Cancel(t)
                                      \/ \E k \in {"K", "L", "N"} : Fail(k, t))

Init == /\ st = "closed" /\ openedAt = -1 /\ probe = FALSE /\ fails = <<>> /\ cf = <<>>
        /\ phase = "closed" /\ t0 = -1 /\ out = FALSE /\ logAll = <<>> /\ logK = <<>>
        /\ last = 0 /\ agree = TRUE
        /\ did = [op |-> "init", k |-> "-", allowed |-> TRUE, ev |-> "-"]

IndInv ==
    /\ agree
    /\ st \in {"closed", "open", "half"} /\ st = phase
    /\ (st # "closed") => (openedAt = t0 /\ t0 <= last)
    /\ probe = out /\ (probe => st = "half")
    /\ (st # "closed") => (fails = <<>> /\ cf = <<>> /\ logAll = <<>> /\ logK = <<>>)
    /\ Sorted(logAll) /\ Sorted(logK)
    /\ \A i \in DOMAIN logAll : logAll[i] <= last
    /\ \A i \in DOMAIN logK : logK[i] <= last
    /\ Prune(fails, last - W) = Prune(logAll, last - W)      \* the deque is pruned lazily, when a failure is noted
    /\ IF CThr > 0 THEN Prune(cf, last - W) = Prune(logK, last - W) ELSE cf = <<>>
=============================================================================
