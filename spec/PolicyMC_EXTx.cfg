SPECIFICATION Spec
CONSTANTS
  Classes <- Classes4
  Outs <- OutsExt
  Durs = {1}
  CDurs <- ZeroDur
  EDurs <- ZeroDur
  Rets <- RetsOne
  Advs <- AdvsExact
  Decs <- DecsAll
  BFaults <- BFaultsNone
  Ras <- RasNone
  Modes = {"call", "exec"}
  NCalls = 2
  Gaps = {0, 2}
  PConfigs <- PConfigsExtX
  RecordHist = TRUE
INVARIANT NoViolation
INVARIANT BreakerTypeOK
INVARIANT RefInSync
INVARIANT ExportBehaviours
CHECK_DEADLOCK FALSE
