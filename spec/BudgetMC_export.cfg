SPECIFICATION Spec
CONSTANTS
  MaxNow = 7
  MaxDepth = 6
  Export = TRUE
  Profile = "quick"
CONSTRAINT DepthBound
ACTION_CONSTRAINT ExportEdge
INVARIANT NoViolation
INVARIANT Bound
INVARIANT DequeIsWindow

CHECK_DEADLOCK FALSE
