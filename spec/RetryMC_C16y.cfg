SPECIFICATION Spec
CONSTANTS
  Classes <- Classes4
  Outs <- OutsC16y
  Durs = {0}
  CDurs <- ZeroDur
  EDurs <- ZeroDur
  Rets <- RetsMonths
  Advs <- AdvsExact
  Decs <- DecsSleep
  BFaults <- BFaultsNone
  Ras <- RasNone
  Modes = {"call", "exec"}
  RunGaps <- GapsNone
  NRuns = 1
  Configs <- ConfigsC16y
  RecordHist = TRUE
INVARIANT NoViolation
INVARIANT ExportBehaviours
CHECK_DEADLOCK FALSE
