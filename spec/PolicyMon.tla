------------------------------ MODULE PolicyMon ------------------------------
(***************************************************************************)
(* P at policy level: monitors for C07 (policy part), C08, C09 and the     *)
(* breaker-event part of C14, over the event stream of a sequence of       *)
(* policy calls sharing one circuit breaker.  Breaker operations are       *)
(* judged by the property-level reference of Breaker.tla (C06 / C07        *)
(* clauses); the retry loop's own events are forwarded to RetryMon.        *)
(***************************************************************************)
EXTENDS Integers, Sequences, FiniteSets

CONSTANT ClassSet

RM == INSTANCE RetryMon
BR == INSTANCE Breaker

PMInit ==
    [viol |-> {}, r |-> BR!RInit, m |-> RM!MInit,
     mode |-> "-", admitted |-> FALSE, refused |-> FALSE, preabort |-> FALSE,
     nrec |-> 0, recop |-> "-", reck |-> "-",
     ninv |-> 0, lastout |-> "-", lastk |-> "-",
     probe |-> FALSE,                                   \* this call was admitted as the half-open probe
     pend |-> "-", pendk |-> "-", pendstate |-> "-"]   \* breaker event owed to the sinks

V(pm, cond, name) == IF cond THEN pm ELSE [pm EXCEPT !.viol = @ \cup {name}]
RECURSIVE Checks(_, _)
Checks(pm, cs) == IF cs = <<>> THEN pm ELSE Checks(V(pm, Head(cs)[1], Head(cs)[2]), Tail(cs))

WithLoop(pc, pm, ev) ==
    IF pc.retry THEN LET m1 == RM!MonStep(pc.rc, pm.m, ev)
                     IN  [pm EXCEPT !.m = [m1 EXCEPT !.viol = {}], !.viol = @ \cup m1.viol]
    ELSE pm

BreakerOp(pc, pm, op, k, at, allowed, bev, state) ==
    [pm EXCEPT !.viol = @ \cup BR!RJudge(pc.bc, pm.r, op, k, at, allowed, bev, state),
               !.r = BR!RNext(pc.bc, pm.r, op, k, at, allowed, state),
               !.pend = bev, !.pendk = IF op = "fail" THEN k ELSE "-", !.pendstate = state]

OnStart(pc, pm, ev) ==
    LET pm1 == V(pm, pm.pend = "-", "C14:breaker-transition-not-reported") IN
    [pm1 EXCEPT !.mode = ev.mode, !.admitted = FALSE, !.refused = FALSE, !.preabort = FALSE,
                !.nrec = 0, !.recop = "-", !.reck = "-", !.ninv = 0, !.lastout = "-",
                !.lastk = "-", !.pend = "-", !.probe = FALSE, !.m = RM!MInit]

OnAllow(pc, pm, ev) ==
    LET pm1 == Checks(pm, <<
          <<~pm.admitted /\ ~pm.refused,          "C07:admission-asked-twice">>,
          <<pm.ninv = 0,                           "C07:operation-invoked-before-admission">> >>)
        pm2 == BreakerOp(pc, pm1, "allow", "-", ev.at, ev.allowed, ev.ev, ev.state)
    IN  [pm2 EXCEPT !.admitted = ev.allowed, !.refused = ~ev.allowed,
                    !.probe = ev.allowed /\ ev.state = "half"]

OnRec(pc, pm, ev) ==
    LET pm1 == Checks(pm, <<
          <<~pm.refused,                           "C07:rejected-call-recorded-with-breaker">>,
          <<~pm.refused,                           "C09:rejected-call-recorded-with-breaker">>,
          <<pm.admitted \/ pm.preabort,            "C09:record-without-admission">>,
          <<pm.nrec = 0,                           "C09:more-than-one-record-per-call">>,
          <<pm.pend = "-",                         "C14:breaker-transition-not-reported">> >>)
        pm2 == BreakerOp(pc, pm1, ev.op, ev.k, ev.at, TRUE, ev.ev, ev.state)
    IN  [pm2 EXCEPT !.nrec = @ + 1, !.recop = ev.op, !.reck = ev.k]

OnBreakerEmit(pc, pm, ev) ==
    LET pm1 == Checks(pm, <<
          <<pm.pend # "-" /\ ev.name = pm.pend,    "C14:breaker-event-does-not-match-transition">>,
          <<ev.n = 0 /\ ev.sleep = 0,              "C14:breaker-event-attempt-and-sleep">>,
          <<ev.state = pm.pendstate,               "C14:breaker-event-state-tag">>,
          <<ev.k = pm.pendk /\ ~ev.err /\ ev.stop = "-" /\ ev.cause = "-" /\ ev.op = pc.rc.opname,
                                                   "C14:breaker-event-tags">> >>)
    IN  [pm1 EXCEPT !.pend = "-"]

OnInvoke(pc, pm, ev) ==
    LET pm1 == Checks(pm, <<
          <<~pm.refused,                           "C07:operation-invoked-by-rejected-call">>,
          <<pm.admitted,                           "C07:operation-invoked-before-admission">>,
          <<pm.nrec = 0,                           "C09:record-before-final-attempt">>,
          <<pm.pend = "-",                         "C14:breaker-transition-not-reported">> >>)
        pm2 == [pm1 EXCEPT !.ninv = @ + 1, !.lastout = ev.out, !.lastk = ev.k]
    IN  WithLoop(pc, pm2, ev)

\* what the breaker must be told for the delivered result
Expected(pc, pm, v) ==
    LET value   == v.kind = "ret" \/ (v.kind = "outcome" /\ v.ok)
        aborted == v.kind = "abort" \/ (v.kind = "outcome" /\ ~v.ok /\ v.stop = "ABORTED")
        \* a RetryExhaustedError raised by the operation (nested policy) is a failure of class
        \* last_class-or-UNKNOWN on every path; a nested CircuitOpenError is left open by the statement
        nested  == pm.lastout = "nested" /\ v.kind \in {"cancel", "outcome"}
        nestedX == pm.lastout = "circuitopen" /\ v.kind \in {"cancel", "outcome"}
        cancel  == v.kind = "cancel" /\ ~nestedX /\ ~nested
        fclass  == IF pc.retry THEN (IF pm.m.lk = "-" THEN "UNKNOWN" ELSE pm.m.lk) ELSE pm.lastk
    IN  IF value THEN {<<"ok", "-">>}
        ELSE IF nested THEN {<<"fail", "UNKNOWN">>}
        ELSE IF nestedX THEN {<<"cancel", "-">>} \cup {<<"fail", k>> : k \in ClassSet}
        ELSE IF aborted \/ cancel THEN {<<"cancel", "-">>}
        ELSE {<<"fail", fclass>>}

OnDeliver(pc, pm, ev) ==
    LET v == ev.v
        rejected == v.kind \in {"circuit-open:open", "circuit-open:half", "outcome-rejected:open",
                                "outcome-rejected:half"}
        pm1 == Checks(pm, <<
          <<pm.pend = "-",                         "C14:breaker-transition-not-reported">>,
          <<pm.admitted => pm.nrec >= 1,           "C08:admitted-call-not-settled">>,
          <<pm.admitted => pm.nrec >= 1,           "C09:admitted-call-without-record">>,
          \* (a rejected call leaves the slot with whoever holds it, e.g. a direct user of the breaker)
          <<pm.admitted => ~(pm.r.phase = "half" /\ pm.r.out), "C08:probe-slot-leaked">>,
          <<pm.refused <=> rejected,               "C07:rejection-not-delivered-as-rejection">>,
          <<pm.refused => pm.ninv = 0,             "C07:operation-invoked-by-rejected-call">>,
          <<(pm.admitted /\ pm.nrec = 1) => (<<pm.recop, pm.reck>> \in Expected(pc, pm, v)),
                                                   "C09:record-does-not-match-final-outcome">>,
          \* the probe's own result decides: value -> closed, failure (of any class) -> open again
          <<(pm.probe /\ Expected(pc, pm, v) = {<<"ok", "-">>}) => pm.r.phase = "closed",
                                                   "C07:successful-probe-did-not-close">>,
          <<(pm.probe /\ \A x \in Expected(pc, pm, v) : x[1] = "fail") => pm.r.phase = "open",
                                                   "C07:failed-probe-did-not-reopen">>,
          <<pm.preabort => (pm.recop = "cancel" /\ ~pm.admitted /\ pm.ninv = 0),
                                                   "C13:preflight-abort-not-honoured">> >>)
        \* forward the delivery to the loop monitors of an admitted call with retry
        pm2 == IF pc.retry /\ pm.admitted
               THEN WithLoop(pc, pm1, [e |-> "deliver", mode |-> ev.mode, v |-> v, t |-> 0, gap |-> 0])
               ELSE pm1
    IN  [pm2 EXCEPT !.admitted = FALSE, !.refused = FALSE, !.preabort = FALSE, !.m = RM!MInit]

PMonStep(pc, pm, ev) ==
    CASE ev.e = "pstart"   -> OnStart(pc, pm, ev)
      [] ev.e = "prepoll"  -> [pm EXCEPT !.preabort = ev.ans]
      [] ev.e = "allow"    -> OnAllow(pc, pm, ev)
      [] ev.e = "rec"      -> OnRec(pc, pm, ev)
      [] ev.e = "emit" /\ "state" \in DOMAIN ev -> OnBreakerEmit(pc, pm, ev)
      [] ev.e = "invoke"   -> OnInvoke(pc, pm, ev)
      [] ev.e = "pdeliver" -> OnDeliver(pc, pm, ev)
      [] ev.e = "probe-after" ->
            \* with no call outstanding and recovery_timeout_s elapsed the next call is admitted
            V(pm, ev.allowed, "C08:next-call-rejected-after-recovery-timeout")
      [] ev.e = "ext" ->      \* a direct breaker operation: judged by the reference, no event owed
            [BreakerOp(pc, pm, ev.op, ev.k, ev.at, ev.allowed, ev.ev, ev.state) EXCEPT !.pend = "-"]
      [] ev.e \in {"fault", "astart", "aend"} -> pm
      [] ev.e = "classify" /\ pc.retry /\ pm.m.terminal # "-" -> pm   \* classify_for_breaker
      [] OTHER             -> WithLoop(pc, pm, ev)
=============================================================================
