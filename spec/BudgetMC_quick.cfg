SPECIFICATION Spec
CONSTANTS
  MaxNow = 10
  MaxDepth = 9
  Export = FALSE
  Profile = "quick"
CONSTRAINT DepthBound

INVARIANT NoViolation
INVARIANT Bound
INVARIANT DequeIsWindow
INVARIANT PopOldIsSelect
PROPERTY CapacityReturns
CHECK_DEADLOCK FALSE
