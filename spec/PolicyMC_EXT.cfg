SPECIFICATION Spec
CONSTANTS
  Classes <- Classes4
  Outs <- OutsExt
  Durs = {0}
  CDurs <- ZeroDur
  EDurs <- ZeroDur
  Rets <- RetsOne
  Advs <- AdvsExact
  Decs <- DecsAll
  BFaults <- BFaultsNone
  Ras <- RasNone
  Modes = {"call", "exec"}
  NCalls = 2
  Gaps = {0, 1, 2}
  PConfigs <- PConfigsExt
  RecordHist = FALSE
INVARIANT NoViolation
INVARIANT BreakerTypeOK
INVARIANT RefInSync

CHECK_DEADLOCK FALSE
