SPECIFICATION Spec
CONSTANTS
  Classes <- Classes4
  Outs <- OutsC03
  Durs = {1}
  CDurs <- ZeroDur
  EDurs <- ZeroDur
  Rets <- RetsOne
  Advs <- AdvsExact
  Decs <- DecsAll
  BFaults <- BFaultsNone
  Ras <- RasNone
  Modes = {"call", "exec"}
  RunGaps <- GapsNone
  NRuns = 1
  Configs <- ConfigsC03x
  RecordHist = TRUE
INVARIANT NoViolation
INVARIANT ExportBehaviours
CHECK_DEADLOCK FALSE
