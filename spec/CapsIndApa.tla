------------------------------ MODULE CapsIndApa ------------------------------
(* Apalache entry point of CapsInd: the symbolic "any state satisfying IndInv" *)
EXTENDS CapsInd, Apalache

IndInit ==
    /\ att \in Int /\ unk \in Int /\ inv \in Int
    /\ cnt \in [Cls -> Int] /\ g \in [Cls -> Int]
    /\ lk \in Cls \cup {"-"} /\ phase \in {"top", "running", "decide", "stopped"}
    /\ nonretry \in BOOLEAN /\ bad \in BOOLEAN
    /\ IndInv
=============================================================================
