SPECIFICATION Spec
CONSTANTS
  Classes <- ClassesCaps
  Outs <- OutsCaps
  Durs = {0}
  CDurs <- ZeroDur
  EDurs <- ZeroDur
  Rets <- RetsOne
  Advs <- AdvsExact
  Decs <- DecsSleep
  BFaults <- BFaultsNone
  Ras <- RasNone
  Modes = {"call", "exec"}
  RunGaps <- GapsNone
  NRuns = 2
  Configs <- ConfigsC01T
  RecordHist = FALSE
INVARIANT NoViolation
INVARIANT AttemptsBounded
INVARIANT InvokeWithinDeadline
INVARIANT SleepWithinRemaining
INVARIANT DeliveriesRelated
CHECK_DEADLOCK FALSE
