SPECIFICATION Spec
CONSTANTS
  Classes <- Classes4
  Outs <- OutsC05x
  Durs = {0}
  CDurs <- ZeroDur
  EDurs <- ZeroDur
  Rets <- RetsDay
  Advs <- AdvsExact
  Decs <- DecsSleep
  BFaults <- BFaultsNone
  Ras <- RasNone
  Modes = {"exec"}
  RunGaps <- GapsNone
  NRuns = 1
  Configs <- ConfigsC05y
  RecordHist = TRUE
INVARIANT NoViolation
INVARIANT ExportBehaviours
CHECK_DEADLOCK FALSE
