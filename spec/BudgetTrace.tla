---------------------------- MODULE BudgetTrace ----------------------------
(***************************************************************************)
(* Validation of traces recorded from the real Budget (C10).               *)
(* TRACE_FILE: JSON array of {cfg: {max, W}, ev: [{op, cost, t, ret}]}.    *)
(* verdict: clauses of Budget!GJudge; conformance: first index where the   *)
(* observation differs from M (Budget!UApply).                             *)
(***************************************************************************)
EXTENDS Budget, Json, IOUtils, TLC

CONSTANT NTraces
Traces == JsonDeserialize(IOEnv.TRACE_FILE)

VARIABLES tid, l, q, g, viol, first, conf
vars == <<tid, l, q, g, viol, first, conf>>

Init == /\ tid \in 1..NTraces /\ l = 1 /\ q = UInit /\ g = GInit
        /\ viol = {} /\ first = 0 /\ conf = 0

Step ==
    /\ l <= Len(Traces[tid].ev)
    /\ LET c   == Traces[tid].cfg
           e   == Traces[tid].ev[l]
           res == UApply(c, q, e.op, e.cost, e.t)
           j   == GJudge(c, g, e.op, e.cost, e.t, e.ret)
       IN  /\ viol'  = viol \cup j
           /\ first' = IF first = 0 /\ j # {} THEN l ELSE first
           /\ g'     = GNext(c, g, e.op, e.cost, e.t, e.ret)
           /\ q'     = res.q
           /\ conf'  = IF conf = 0 /\ res.ret # e.ret THEN l ELSE conf
    /\ l' = l + 1
    /\ UNCHANGED tid

Spec == Init /\ [][Step]_vars

Report ==
    (l = Len(Traces[tid].ev) + 1) =>
        PrintT(<<"VERDICT", ToJson([tid |-> tid, viol |-> viol, first |-> first, conf |-> conf])>>)
=============================================================================
