SPECIFICATION Spec
CONSTANTS
  Classes <- Classes4
  Outs <- OutsC16
  Durs = {0, 1}
  CDurs <- ZeroDur
  EDurs <- ZeroDur
  Rets <- RetsTwo
  Advs <- AdvsExact
  Decs <- DecsAll
  BFaults <- BFaultsNone
  Ras <- RasNone
  Modes = {"call", "exec"}
  RunGaps <- GapsNone
  NRuns = 1
  Configs <- ConfigsC16T
  RecordHist = FALSE
INVARIANT NoViolation
INVARIANT AttemptsBounded
INVARIANT InvokeWithinDeadline
INVARIANT SleepWithinRemaining
INVARIANT DeliveriesRelated
CHECK_DEADLOCK FALSE
