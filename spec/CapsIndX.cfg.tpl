SPECIFICATION XSpec
CONSTANTS
  MaxAtt = 1
  MaxUnk = 0
  LimT = 0
  LimR = 0
  LimU = 0
  LimP = 0
CHECK_DEADLOCK FALSE
