SPECIFICATION Spec
CONSTANTS
  Classes <- Classes4
  Outs <- OutsFull
  Durs = {0, 1, 3}
  CDurs <- SomeDur
  EDurs <- SomeDur
  Rets <- RetsAll
  Advs <- AdvsFull
  Decs <- DecsAll
  BFaults <- BFaultsAll
  Ras <- RasSome
  Modes = {"call", "exec"}
  RunGaps <- GapsC10
  NRuns = 2
  Configs <- ConfigsFull
  RecordHist = TRUE
INVARIANT NoViolation
INVARIANT ExportBehaviours
CHECK_DEADLOCK FALSE
