------------------------------ MODULE ConcTrace ------------------------------
(***************************************************************************)
(* Validation of traces recorded from concurrently driven AsyncPolicy      *)
(* calls sharing one breaker (ConcCalls.tla).  verdict: clauses of the     *)
(* identity-aware monitor + Breaker reference; conformance: first event    *)
(* that is not a step of M.  TRACE_FILE: [{cfg: {bc, abort}, n, ev}].      *)
(***************************************************************************)
EXTENDS Integers, Sequences, FiniteSets, TLC, Json, IOUtils, SequencesExt

CONSTANT NTraces
Traces == JsonDeserialize(IOEnv.TRACE_FILE)
VARIABLES tid, l, pm, st, conf
vars == <<tid, l, pm, st, conf>>

Cur == Traces[tid].ev[l]
Is(kind) == l <= Len(Traces[tid].ev) /\ Cur.e = kind

CC == INSTANCE ConcCalls WITH
        NCalls <- Traces[tid].n, MaxNow <- 1000000,
        Classes <- {"AUTH", "PERMISSION", "PERMANENT", "CONCURRENCY", "RATE_LIMIT", "SERVER_ERROR",
                    "TRANSIENT", "UNKNOWN"},
        TickSet <- IF Is("ctick") /\ Cur.at >= st.now THEN {Cur.at - st.now} ELSE {},
        OutKinds <- {"ok", "exc", "excU", "abort", "cancel"}

Cfg(i) == LET j == Traces[i].cfg IN [bc |-> [j.bc EXCEPT !.trip = ToSet(j.bc.trip)], abort |-> j.abort]

Init == tid \in 1..NTraces /\ l = 1 /\ pm = CC!PMInit /\ st = CC!CInit /\ conf = 0
Step == /\ l <= Len(Traces[tid].ev)
        /\ LET c == Cfg(tid) e == Cur
               xs == IF conf = 0 THEN {x \in CC!CStep(c, st) : x[1] = e} ELSE {}
           IN /\ pm' = CC!PMonStep(c, pm, e)
              /\ IF xs # {} THEN st' = (CHOOSE x \in xs : TRUE)[2] /\ conf' = conf
                            ELSE st' = st /\ conf' = (IF conf = 0 THEN l ELSE conf)
        /\ l' = l + 1 /\ UNCHANGED tid
Spec == Init /\ [][Step]_vars
Report == (l = Len(Traces[tid].ev) + 1) =>
             PrintT(<<"VERDICT", ToJson([tid |-> tid, viol |-> pm.viol, conf |-> conf])>>)
=============================================================================
