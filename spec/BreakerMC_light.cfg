SPECIFICATION Spec
CONSTANTS
  ClassSet = {"A", "B", "C"}
  MaxNow = 6
  MaxDepth = 6
  Export = FALSE
  Profile = "quick"
CONSTRAINT DepthBound
INVARIANT NoViolation
INVARIANT TypeOK
INVARIANT RefInSync
PROPERTY OpensOnlyByRule
PROPERTY OpensWheneverRule
PROPERTY ClosedInertOnOthers
PROPERTY RejectsWhileOpen
PROPERTY OneProbe
PROPERTY ProbeSuccessCloses
PROPERTY ProbeFailureReopens
CHECK_DEADLOCK FALSE
