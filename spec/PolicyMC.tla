------------------------------ MODULE PolicyMC ------------------------------
(***************************************************************************)
(* Model-checking wrapper: PolicyCall (M) with PolicyMon (P).              *)
(***************************************************************************)
EXTENDS PolicyCall, Json, SequencesExt

CONSTANTS PConfigs, RecordHist

PM == INSTANCE PolicyMon WITH ClassSet <- Classes

VARIABLES cid, p, ev, hist, pm
vars == <<cid, p, ev, hist, pm>>

CfgSeq == SetToSeq(PConfigs)
pcfg   == CfgSeq[cid]

ASSUME PrintT(<<"CONFIGS", ToJson(CfgSeq)>>)

Init == /\ cid \in 1..Len(CfgSeq)
        /\ p = PInit(CfgSeq[cid])
        /\ ev = [e |-> "start"]
        /\ hist = <<>>
        /\ pm = PM!PMInit

Next == \E x \in PStep(pcfg, p) :
            /\ ev' = x[1]
            /\ p' = x[2]
            /\ hist' = IF RecordHist THEN Append(hist, x[1]) ELSE hist
            /\ pm' = PM!PMonStep(pcfg, pm, x[1])
            /\ UNCHANGED cid

Spec == Init /\ [][Next]_vars

NoViolation == pm.viol = {}
BreakerTypeOK == B!BTypeOK(pcfg.bc, p.b)
\* C08 on M's own state: between calls the probe slot is free
NoPhantomProbe == (p.ph = "idle") => ~p.b.probe
RefInSync == pm.r.phase = p.b.st

\* (with direct breaker operations configured: once they have all been performed, so that a
\* behaviour is not exported again with every operation appended to it)
Terminal == p.ph = "idle" /\ p.ncall = NCalls /\ p.next = pcfg.next
ExportBehaviours ==
    (RecordHist /\ Terminal) => PrintT(<<"BEH", ToJson([c |-> cid, h |-> hist])>>)

(***************************************************************************)
(* configurations                                                          *)
(***************************************************************************)
T == "TRANSIENT"  R == "RATE_LIMIT"  U == "UNKNOWN"  P == "PERMANENT"
Classes4 == {T, R, U, P}
Inf == 1000
NoLim == [k \in Classes |-> None]
RBase == [maxAtt |-> 2, lim |-> NoLim, maxUnk |-> None, D |-> Inf, hasDefault |-> TRUE,
          strat |-> {}, legacy |-> {}, budget |-> None, bW |-> 100000, handler |-> FALSE,
          abort |-> FALSE, rc |-> TRUE, bsleep |-> FALSE, opname |-> TRUE, hooks |-> FALSE, adaptive |-> {}]
NoThr == [k \in Classes |-> 0]
BCfg(thr, w, r) == [thr |-> thr, W |-> w, R |-> r, trip |-> {T}, cthr |-> NoThr]

Val(n) == [kind |-> "val", v |-> n]
Out(o, k, ra) == [out |-> o, k |-> k, ra |-> ra]
RetsOne == {Val(1)}
RasNone == {None}
ZeroDur == {0}
AdvsExact == {"exact"}
DecsAll == {"sleep", "defer", "abort"}
BFaultsNone == {"none"}
OutsPolicy == {Out("ok", "-", None), Out("exc", T, None), Out("exc", U, None), Out("res", T, None),
               Out("abort", "-", None), Out("kbd", "-", None), Out("cancel", "-", None),
               Out("nested", "-", None)}
OutsPolicySmall == {Out("ok", "-", None), Out("exc", T, None), Out("exc", U, None),
                    Out("abort", "-", None), Out("kbd", "-", None)}

PConfigsA ==
    { [retry |-> rt, rc |-> [RBase EXCEPT !.abort = ab, !.handler = ha, !.maxAtt = ma, !.hooks = hk],
       bc |-> BCfg(th, 4, 2), ext |-> {}, next |-> 0] :
        rt \in BOOLEAN, ab \in BOOLEAN, ha \in BOOLEAN, ma \in {1, 2}, th \in {1, 2}, hk \in BOOLEAN }
PConfigsC07 ==
    { [retry |-> rt, rc |-> [RBase EXCEPT !.maxAtt = 2], bc |-> BCfg(th, 4, r), ext |-> {}, next |-> 0] :
        rt \in BOOLEAN, th \in {1, 2}, r \in {2, 3} }
PConfigsC07x ==
    { [retry |-> rt, rc |-> [RBase EXCEPT !.maxAtt = 1], bc |-> BCfg(th, 4, r), ext |-> {}, next |-> 0] :
        rt \in BOOLEAN, th \in {1, 2}, r \in {2, 3} }
\* (P: a failure of a class the breaker does not count, and that the loop never retries)
OutsC07x == {Out("ok", "-", None), Out("exc", T, None), Out("exc", U, None), Out("exc", P, None)}
OutsC07 == {Out("ok", "-", None), Out("exc", T, None), Out("exc", U, None), Out("exc", P, None),
            Out("abort", "-", None)}
PConfigsC15 ==
    { [retry |-> rt, rc |-> [RBase EXCEPT !.maxAtt = 2, !.handler = ha, !.bsleep = TRUE],
       bc |-> BCfg(1, 4, 2), ext |-> {}, next |-> 0] : rt \in BOOLEAN, ha \in BOOLEAN }
\* attempt hooks: on every policy without a retry component, and on the plainest one with
PConfigsX ==
    { c \in { [retry |-> rt, rc |-> [RBase EXCEPT !.abort = ab, !.maxAtt = 2, !.handler = ha, !.hooks = hk],
               bc |-> BCfg(th, 4, 2), ext |-> {}, next |-> 0] :
               rt \in BOOLEAN, ab \in BOOLEAN, th \in {1, 2}, ha \in BOOLEAN, hk \in BOOLEAN } :
        c.rc.hooks => (IF c.retry THEN ~c.rc.abort /\ ~c.rc.handler ELSE ~c.rc.handler) }
\* the breaker is shared with users who call it directly between the policy calls
ExtAll == {[op |-> "allow", k |-> "-"], [op |-> "ok", k |-> "-"], [op |-> "fail", k |-> T],
           [op |-> "cancel", k |-> "-"]}
PConfigsExt ==
    { [retry |-> rt, rc |-> [RBase EXCEPT !.maxAtt = 1], bc |-> BCfg(1, 4, 2), ext |-> ExtAll, next |-> 2] :
        rt \in BOOLEAN }
PConfigsExtX ==
    { [retry |-> rt, rc |-> [RBase EXCEPT !.maxAtt = 1], bc |-> BCfg(1, 4, 2),
       ext |-> {[op |-> "allow", k |-> "-"], [op |-> "fail", k |-> T], [op |-> "ok", k |-> "-"]}, next |-> 1] :
        rt \in BOOLEAN }
OutsExt == {Out("ok", "-", None), Out("exc", T, None)}
=============================================================================
