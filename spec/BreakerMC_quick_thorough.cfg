SPECIFICATION Spec
CONSTANTS
  ClassSet = {"A", "B", "C"}
  MaxNow = 9
  MaxDepth = 7
  Export = FALSE
  Profile = "full"
CONSTRAINT DepthBound
INVARIANT NoViolation
INVARIANT TypeOK
INVARIANT RefInSync
PROPERTY OpensOnlyByRule
PROPERTY OpensWheneverRule
PROPERTY ClosedInertOnOthers
PROPERTY RejectsWhileOpen
PROPERTY OneProbe
PROPERTY ProbeSuccessCloses
PROPERTY ProbeFailureReopens
CHECK_DEADLOCK FALSE
