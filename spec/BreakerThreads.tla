--------------------------- MODULE BreakerThreads ---------------------------
(***************************************************************************)
(* C17 at design level: the public methods of CircuitBreaker (circuit.py)  *)
(* as a PlusCal algorithm with one label per source line (label name =     *)
(* method + line offset from its `def`), an explicit lock, and N threads   *)
(* each running one operation from a common initial state.                 *)
(*                                                                         *)
(* TLC checks over all line-level interleavings:                           *)
(*   MutualExclusion   at most one thread is inside a locked region;       *)
(*   Linearizable      when all threads are done, results and final state  *)
(*                     equal those of some sequential order of the same    *)
(*                     operations executed atomically by Breaker!BApply;   *)
(*   no deadlock       (CHECK_DEADLOCK; termination is not a deadlock).    *)
(* With Locked = FALSE (the `with self._lock` lines do nothing) TLC finds  *)
(* the races - the configuration BreakerThreads_nolock.cfg is the vacuity  *)
(* guard of this model and must FAIL.                                      *)
(* The scheduler of harness/sched.py logs (thread, method, line offset)    *)
(* for every line it lets a thread execute; ThreadTrace.tla checks that    *)
(* sequence against this algorithm's labels.                               *)
(* Class thresholds are not used here (buckets are covered by Breaker.tla).*)
(***************************************************************************)
EXTENDS Integers, Sequences, FiniteSets, TLC

CONSTANTS Threads, Scenarios, Locked
\* a scenario: [cfg : [thr, W, R, trip], init : [st, openedAt, probe, fails], clock : Nat,
\*              prog : [Threads -> [op, k]]]

Classes == {"TRANSIENT", "UNKNOWN"}
B == INSTANCE Breaker WITH ClassSet <- Classes
NoThr == [k \in Classes |-> 0]

(* --algorithm BreakerThreads
variables sc \in Scenarios,
          st = sc.init.st, openedAt = sc.init.openedAt, probe = sc.init.probe,
          fails = sc.init.fails, lock = 0,
          res = [t \in Threads |-> <<>>];

define
  Cfg == sc.cfg
  Clock == sc.clock
end define;

macro ret(v) begin res[self] := v; end macro;

process th \in Threads
variables now = -1, opened_at = -1, should_open = FALSE, cutoff = 0, op = "-", k = "-";
begin
 start:    op := sc.prog[self].op; k := sc.prog[self].k;
 dispatch: if op = "allow" then goto allow1
           elsif op = "ok" then goto record_success1
           elsif op = "fail" then goto record_failure1
           else goto record_cancel1 end if;

 \* ---- allow ----------------------------------------------------------------
 allow1:  now := Clock;
 allow2: skip;                                  \* the `with self._lock` line is reached ...
 allow2a: await ~Locked \/ lock = 0; if Locked then lock := self end if;   \* ... and the lock acquired
 allow3:  if st = "open" then goto allow4 else goto allow14 end if;
 allow4:  opened_at := openedAt;
 allow5:  if opened_at = -1 then goto allow6 else goto allow8 end if;
 allow6:  opened_at := now;
 allow7:  openedAt := now;
 allow8:  if now - opened_at >= Cfg.R then goto allow9 else goto allow12 end if;
 allow9:  st := "half";
 allow10: probe := TRUE;
 allow11: ret(<<TRUE, "circuit_half_open">>); goto release;
 allow12: ret(<<FALSE, "circuit_rejected">>); goto release;
 allow14: if st = "half" then goto allow15 else goto allow24 end if;
 allow15: if probe then goto allow16 else goto allow21 end if;
 allow16: ret(<<FALSE, "circuit_rejected">>); goto release;
 allow21: probe := TRUE;
 allow22: ret(<<TRUE, "-">>); goto release;
 allow24: ret(<<TRUE, "-">>); goto release;

 \* ---- record_success -------------------------------------------------------
 record_success1: skip;                                  \* the `with self._lock` line is reached ...
 record_success1a: await ~Locked \/ lock = 0; if Locked then lock := self end if;   \* ... and the lock acquired
 record_success2: if st = "half" then goto record_success3 else goto record_success8 end if;
 record_success3: st := "closed";
 record_success4: openedAt := -1;
 record_success5: probe := FALSE;
 record_success6: fails := <<>>;                      \* self._clear_failures()
 record_success7: ret(<<TRUE, "circuit_closed">>); goto release;
 record_success8: ret(<<TRUE, "-">>); goto release;

 \* ---- record_failure -------------------------------------------------------
 record_failure1:  now := Clock;
 record_failure2: skip;                                  \* the `with self._lock` line is reached ...
 record_failure2a: await ~Locked \/ lock = 0; if Locked then lock := self end if;   \* ... and the lock acquired
 record_failure3:  if st = "half" then goto record_failure4 else goto record_failure10 end if;
 record_failure4:  st := "open";
 record_failure5:  openedAt := now;
 record_failure6:  probe := FALSE;
 record_failure7:  fails := <<>>;
 record_failure8:  ret(<<TRUE, "circuit_opened">>); goto release;
 record_failure10: if st = "open" then goto record_failure11 else goto record_failure13 end if;
 record_failure11: ret(<<TRUE, "-">>); goto release;
 record_failure13: if k \notin Cfg.trip then goto record_failure14 else goto record_failure16 end if;
 record_failure14: ret(<<TRUE, "-">>); goto release;
 record_failure16: cutoff := now - Cfg.W;                 \* _note_failure -> _prune
 prune:            if fails # <<>> /\ Head(fails) <= cutoff then fails := Tail(fails); goto prune
                   else goto note2 end if;
 note2:            fails := Append(fails, now);
 note15:           should_open := Len(fails) >= Cfg.thr;
 record_failure17: if should_open then goto record_failure18 else goto record_failure22 end if;
 record_failure18: st := "open";
 record_failure19: openedAt := now;
 record_failure20: fails := <<>>;
 record_failure21: ret(<<TRUE, "circuit_opened">>); goto release;
 record_failure22: ret(<<TRUE, "-">>); goto release;

 \* ---- record_cancel --------------------------------------------------------
 record_cancel1: skip;                                  \* the `with self._lock` line is reached ...
 record_cancel1a: await ~Locked \/ lock = 0; if Locked then lock := self end if;   \* ... and the lock acquired
 record_cancel2: if st = "half" then goto record_cancel3 else goto record_cancel4 end if;
 record_cancel3: probe := FALSE;
 record_cancel4: ret(<<TRUE, "-">>);

 release: if Locked then lock := 0 end if;
end process;
end algorithm; *)
\* BEGIN TRANSLATION
VARIABLES pc, sc, st, openedAt, probe, fails, lock, res

(* define statement *)
Cfg == sc.cfg
Clock == sc.clock

VARIABLES now, opened_at, should_open, cutoff, op, k

vars == << pc, sc, st, openedAt, probe, fails, lock, res, now, opened_at, 
           should_open, cutoff, op, k >>

ProcSet == (Threads)

Init == (* Global variables *)
        /\ sc \in Scenarios
        /\ st = sc.init.st
        /\ openedAt = sc.init.openedAt
        /\ probe = sc.init.probe
        /\ fails = sc.init.fails
        /\ lock = 0
        /\ res = [t \in Threads |-> <<>>]
        (* Process th *)
        /\ now = [self \in Threads |-> -1]
        /\ opened_at = [self \in Threads |-> -1]
        /\ should_open = [self \in Threads |-> FALSE]
        /\ cutoff = [self \in Threads |-> 0]
        /\ op = [self \in Threads |-> "-"]
        /\ k = [self \in Threads |-> "-"]
        /\ pc = [self \in ProcSet |-> "start"]

start(self) == /\ pc[self] = "start"
               /\ op' = [op EXCEPT ![self] = sc.prog[self].op]
               /\ k' = [k EXCEPT ![self] = sc.prog[self].k]
               /\ pc' = [pc EXCEPT ![self] = "dispatch"]
               /\ UNCHANGED << sc, st, openedAt, probe, fails, lock, res, now, 
                               opened_at, should_open, cutoff >>

dispatch(self) == /\ pc[self] = "dispatch"
                  /\ IF op[self] = "allow"
                        THEN /\ pc' = [pc EXCEPT ![self] = "allow1"]
                        ELSE /\ IF op[self] = "ok"
                                   THEN /\ pc' = [pc EXCEPT ![self] = "record_success1"]
                                   ELSE /\ IF op[self] = "fail"
                                              THEN /\ pc' = [pc EXCEPT ![self] = "record_failure1"]
                                              ELSE /\ pc' = [pc EXCEPT ![self] = "record_cancel1"]
                  /\ UNCHANGED << sc, st, openedAt, probe, fails, lock, res, 
                                  now, opened_at, should_open, cutoff, op, k >>

allow1(self) == /\ pc[self] = "allow1"
                /\ now' = [now EXCEPT ![self] = Clock]
                /\ pc' = [pc EXCEPT ![self] = "allow2"]
                /\ UNCHANGED << sc, st, openedAt, probe, fails, lock, res, 
                                opened_at, should_open, cutoff, op, k >>

allow2(self) == /\ pc[self] = "allow2"
                /\ TRUE
                /\ pc' = [pc EXCEPT ![self] = "allow2a"]
                /\ UNCHANGED << sc, st, openedAt, probe, fails, lock, res, now, 
                                opened_at, should_open, cutoff, op, k >>

allow2a(self) == /\ pc[self] = "allow2a"
                 /\ ~Locked \/ lock = 0
                 /\ IF Locked
                       THEN /\ lock' = self
                       ELSE /\ TRUE
                            /\ lock' = lock
                 /\ pc' = [pc EXCEPT ![self] = "allow3"]
                 /\ UNCHANGED << sc, st, openedAt, probe, fails, res, now, 
                                 opened_at, should_open, cutoff, op, k >>

allow3(self) == /\ pc[self] = "allow3"
                /\ IF st = "open"
                      THEN /\ pc' = [pc EXCEPT ![self] = "allow4"]
                      ELSE /\ pc' = [pc EXCEPT ![self] = "allow14"]
                /\ UNCHANGED << sc, st, openedAt, probe, fails, lock, res, now, 
                                opened_at, should_open, cutoff, op, k >>

allow4(self) == /\ pc[self] = "allow4"
                /\ opened_at' = [opened_at EXCEPT ![self] = openedAt]
                /\ pc' = [pc EXCEPT ![self] = "allow5"]
                /\ UNCHANGED << sc, st, openedAt, probe, fails, lock, res, now, 
                                should_open, cutoff, op, k >>

allow5(self) == /\ pc[self] = "allow5"
                /\ IF opened_at[self] = -1
                      THEN /\ pc' = [pc EXCEPT ![self] = "allow6"]
                      ELSE /\ pc' = [pc EXCEPT ![self] = "allow8"]
                /\ UNCHANGED << sc, st, openedAt, probe, fails, lock, res, now, 
                                opened_at, should_open, cutoff, op, k >>

allow6(self) == /\ pc[self] = "allow6"
                /\ opened_at' = [opened_at EXCEPT ![self] = now[self]]
                /\ pc' = [pc EXCEPT ![self] = "allow7"]
                /\ UNCHANGED << sc, st, openedAt, probe, fails, lock, res, now, 
                                should_open, cutoff, op, k >>

allow7(self) == /\ pc[self] = "allow7"
                /\ openedAt' = now[self]
                /\ pc' = [pc EXCEPT ![self] = "allow8"]
                /\ UNCHANGED << sc, st, probe, fails, lock, res, now, 
                                opened_at, should_open, cutoff, op, k >>

allow8(self) == /\ pc[self] = "allow8"
                /\ IF now[self] - opened_at[self] >= Cfg.R
                      THEN /\ pc' = [pc EXCEPT ![self] = "allow9"]
                      ELSE /\ pc' = [pc EXCEPT ![self] = "allow12"]
                /\ UNCHANGED << sc, st, openedAt, probe, fails, lock, res, now, 
                                opened_at, should_open, cutoff, op, k >>

allow9(self) == /\ pc[self] = "allow9"
                /\ st' = "half"
                /\ pc' = [pc EXCEPT ![self] = "allow10"]
                /\ UNCHANGED << sc, openedAt, probe, fails, lock, res, now, 
                                opened_at, should_open, cutoff, op, k >>

allow10(self) == /\ pc[self] = "allow10"
                 /\ probe' = TRUE
                 /\ pc' = [pc EXCEPT ![self] = "allow11"]
                 /\ UNCHANGED << sc, st, openedAt, fails, lock, res, now, 
                                 opened_at, should_open, cutoff, op, k >>

allow11(self) == /\ pc[self] = "allow11"
                 /\ res' = [res EXCEPT ![self] = <<TRUE, "circuit_half_open">>]
                 /\ pc' = [pc EXCEPT ![self] = "release"]
                 /\ UNCHANGED << sc, st, openedAt, probe, fails, lock, now, 
                                 opened_at, should_open, cutoff, op, k >>

allow12(self) == /\ pc[self] = "allow12"
                 /\ res' = [res EXCEPT ![self] = <<FALSE, "circuit_rejected">>]
                 /\ pc' = [pc EXCEPT ![self] = "release"]
                 /\ UNCHANGED << sc, st, openedAt, probe, fails, lock, now, 
                                 opened_at, should_open, cutoff, op, k >>

allow14(self) == /\ pc[self] = "allow14"
                 /\ IF st = "half"
                       THEN /\ pc' = [pc EXCEPT ![self] = "allow15"]
                       ELSE /\ pc' = [pc EXCEPT ![self] = "allow24"]
                 /\ UNCHANGED << sc, st, openedAt, probe, fails, lock, res, 
                                 now, opened_at, should_open, cutoff, op, k >>

allow15(self) == /\ pc[self] = "allow15"
                 /\ IF probe
                       THEN /\ pc' = [pc EXCEPT ![self] = "allow16"]
                       ELSE /\ pc' = [pc EXCEPT ![self] = "allow21"]
                 /\ UNCHANGED << sc, st, openedAt, probe, fails, lock, res, 
                                 now, opened_at, should_open, cutoff, op, k >>

allow16(self) == /\ pc[self] = "allow16"
                 /\ res' = [res EXCEPT ![self] = <<FALSE, "circuit_rejected">>]
                 /\ pc' = [pc EXCEPT ![self] = "release"]
                 /\ UNCHANGED << sc, st, openedAt, probe, fails, lock, now, 
                                 opened_at, should_open, cutoff, op, k >>

allow21(self) == /\ pc[self] = "allow21"
                 /\ probe' = TRUE
                 /\ pc' = [pc EXCEPT ![self] = "allow22"]
                 /\ UNCHANGED << sc, st, openedAt, fails, lock, res, now, 
                                 opened_at, should_open, cutoff, op, k >>

allow22(self) == /\ pc[self] = "allow22"
                 /\ res' = [res EXCEPT ![self] = <<TRUE, "-">>]
                 /\ pc' = [pc EXCEPT ![self] = "release"]
                 /\ UNCHANGED << sc, st, openedAt, probe, fails, lock, now, 
                                 opened_at, should_open, cutoff, op, k >>

allow24(self) == /\ pc[self] = "allow24"
                 /\ res' = [res EXCEPT ![self] = <<TRUE, "-">>]
                 /\ pc' = [pc EXCEPT ![self] = "release"]
                 /\ UNCHANGED << sc, st, openedAt, probe, fails, lock, now, 
                                 opened_at, should_open, cutoff, op, k >>

record_success1(self) == /\ pc[self] = "record_success1"
                         /\ TRUE
                         /\ pc' = [pc EXCEPT ![self] = "record_success1a"]
                         /\ UNCHANGED << sc, st, openedAt, probe, fails, lock, 
                                         res, now, opened_at, should_open, 
                                         cutoff, op, k >>

record_success1a(self) == /\ pc[self] = "record_success1a"
                          /\ ~Locked \/ lock = 0
                          /\ IF Locked
                                THEN /\ lock' = self
                                ELSE /\ TRUE
                                     /\ lock' = lock
                          /\ pc' = [pc EXCEPT ![self] = "record_success2"]
                          /\ UNCHANGED << sc, st, openedAt, probe, fails, res, 
                                          now, opened_at, should_open, cutoff, 
                                          op, k >>

record_success2(self) == /\ pc[self] = "record_success2"
                         /\ IF st = "half"
                               THEN /\ pc' = [pc EXCEPT ![self] = "record_success3"]
                               ELSE /\ pc' = [pc EXCEPT ![self] = "record_success8"]
                         /\ UNCHANGED << sc, st, openedAt, probe, fails, lock, 
                                         res, now, opened_at, should_open, 
                                         cutoff, op, k >>

record_success3(self) == /\ pc[self] = "record_success3"
                         /\ st' = "closed"
                         /\ pc' = [pc EXCEPT ![self] = "record_success4"]
                         /\ UNCHANGED << sc, openedAt, probe, fails, lock, res, 
                                         now, opened_at, should_open, cutoff, 
                                         op, k >>

record_success4(self) == /\ pc[self] = "record_success4"
                         /\ openedAt' = -1
                         /\ pc' = [pc EXCEPT ![self] = "record_success5"]
                         /\ UNCHANGED << sc, st, probe, fails, lock, res, now, 
                                         opened_at, should_open, cutoff, op, k >>

record_success5(self) == /\ pc[self] = "record_success5"
                         /\ probe' = FALSE
                         /\ pc' = [pc EXCEPT ![self] = "record_success6"]
                         /\ UNCHANGED << sc, st, openedAt, fails, lock, res, 
                                         now, opened_at, should_open, cutoff, 
                                         op, k >>

record_success6(self) == /\ pc[self] = "record_success6"
                         /\ fails' = <<>>
                         /\ pc' = [pc EXCEPT ![self] = "record_success7"]
                         /\ UNCHANGED << sc, st, openedAt, probe, lock, res, 
                                         now, opened_at, should_open, cutoff, 
                                         op, k >>

record_success7(self) == /\ pc[self] = "record_success7"
                         /\ res' = [res EXCEPT ![self] = <<TRUE, "circuit_closed">>]
                         /\ pc' = [pc EXCEPT ![self] = "release"]
                         /\ UNCHANGED << sc, st, openedAt, probe, fails, lock, 
                                         now, opened_at, should_open, cutoff, 
                                         op, k >>

record_success8(self) == /\ pc[self] = "record_success8"
                         /\ res' = [res EXCEPT ![self] = <<TRUE, "-">>]
                         /\ pc' = [pc EXCEPT ![self] = "release"]
                         /\ UNCHANGED << sc, st, openedAt, probe, fails, lock, 
                                         now, opened_at, should_open, cutoff, 
                                         op, k >>

record_failure1(self) == /\ pc[self] = "record_failure1"
                         /\ now' = [now EXCEPT ![self] = Clock]
                         /\ pc' = [pc EXCEPT ![self] = "record_failure2"]
                         /\ UNCHANGED << sc, st, openedAt, probe, fails, lock, 
                                         res, opened_at, should_open, cutoff, 
                                         op, k >>

record_failure2(self) == /\ pc[self] = "record_failure2"
                         /\ TRUE
                         /\ pc' = [pc EXCEPT ![self] = "record_failure2a"]
                         /\ UNCHANGED << sc, st, openedAt, probe, fails, lock, 
                                         res, now, opened_at, should_open, 
                                         cutoff, op, k >>

record_failure2a(self) == /\ pc[self] = "record_failure2a"
                          /\ ~Locked \/ lock = 0
                          /\ IF Locked
                                THEN /\ lock' = self
                                ELSE /\ TRUE
                                     /\ lock' = lock
                          /\ pc' = [pc EXCEPT ![self] = "record_failure3"]
                          /\ UNCHANGED << sc, st, openedAt, probe, fails, res, 
                                          now, opened_at, should_open, cutoff, 
                                          op, k >>

record_failure3(self) == /\ pc[self] = "record_failure3"
                         /\ IF st = "half"
                               THEN /\ pc' = [pc EXCEPT ![self] = "record_failure4"]
                               ELSE /\ pc' = [pc EXCEPT ![self] = "record_failure10"]
                         /\ UNCHANGED << sc, st, openedAt, probe, fails, lock, 
                                         res, now, opened_at, should_open, 
                                         cutoff, op, k >>

record_failure4(self) == /\ pc[self] = "record_failure4"
                         /\ st' = "open"
                         /\ pc' = [pc EXCEPT ![self] = "record_failure5"]
                         /\ UNCHANGED << sc, openedAt, probe, fails, lock, res, 
                                         now, opened_at, should_open, cutoff, 
                                         op, k >>

record_failure5(self) == /\ pc[self] = "record_failure5"
                         /\ openedAt' = now[self]
                         /\ pc' = [pc EXCEPT ![self] = "record_failure6"]
                         /\ UNCHANGED << sc, st, probe, fails, lock, res, now, 
                                         opened_at, should_open, cutoff, op, k >>

record_failure6(self) == /\ pc[self] = "record_failure6"
                         /\ probe' = FALSE
                         /\ pc' = [pc EXCEPT ![self] = "record_failure7"]
                         /\ UNCHANGED << sc, st, openedAt, fails, lock, res, 
                                         now, opened_at, should_open, cutoff, 
                                         op, k >>

record_failure7(self) == /\ pc[self] = "record_failure7"
                         /\ fails' = <<>>
                         /\ pc' = [pc EXCEPT ![self] = "record_failure8"]
                         /\ UNCHANGED << sc, st, openedAt, probe, lock, res, 
                                         now, opened_at, should_open, cutoff, 
                                         op, k >>

record_failure8(self) == /\ pc[self] = "record_failure8"
                         /\ res' = [res EXCEPT ![self] = <<TRUE, "circuit_opened">>]
                         /\ pc' = [pc EXCEPT ![self] = "release"]
                         /\ UNCHANGED << sc, st, openedAt, probe, fails, lock, 
                                         now, opened_at, should_open, cutoff, 
                                         op, k >>

record_failure10(self) == /\ pc[self] = "record_failure10"
                          /\ IF st = "open"
                                THEN /\ pc' = [pc EXCEPT ![self] = "record_failure11"]
                                ELSE /\ pc' = [pc EXCEPT ![self] = "record_failure13"]
                          /\ UNCHANGED << sc, st, openedAt, probe, fails, lock, 
                                          res, now, opened_at, should_open, 
                                          cutoff, op, k >>

record_failure11(self) == /\ pc[self] = "record_failure11"
                          /\ res' = [res EXCEPT ![self] = <<TRUE, "-">>]
                          /\ pc' = [pc EXCEPT ![self] = "release"]
                          /\ UNCHANGED << sc, st, openedAt, probe, fails, lock, 
                                          now, opened_at, should_open, cutoff, 
                                          op, k >>

record_failure13(self) == /\ pc[self] = "record_failure13"
                          /\ IF k[self] \notin Cfg.trip
                                THEN /\ pc' = [pc EXCEPT ![self] = "record_failure14"]
                                ELSE /\ pc' = [pc EXCEPT ![self] = "record_failure16"]
                          /\ UNCHANGED << sc, st, openedAt, probe, fails, lock, 
                                          res, now, opened_at, should_open, 
                                          cutoff, op, k >>

record_failure14(self) == /\ pc[self] = "record_failure14"
                          /\ res' = [res EXCEPT ![self] = <<TRUE, "-">>]
                          /\ pc' = [pc EXCEPT ![self] = "release"]
                          /\ UNCHANGED << sc, st, openedAt, probe, fails, lock, 
                                          now, opened_at, should_open, cutoff, 
                                          op, k >>

record_failure16(self) == /\ pc[self] = "record_failure16"
                          /\ cutoff' = [cutoff EXCEPT ![self] = now[self] - Cfg.W]
                          /\ pc' = [pc EXCEPT ![self] = "prune"]
                          /\ UNCHANGED << sc, st, openedAt, probe, fails, lock, 
                                          res, now, opened_at, should_open, op, 
                                          k >>

prune(self) == /\ pc[self] = "prune"
               /\ IF fails # <<>> /\ Head(fails) <= cutoff[self]
                     THEN /\ fails' = Tail(fails)
                          /\ pc' = [pc EXCEPT ![self] = "prune"]
                     ELSE /\ pc' = [pc EXCEPT ![self] = "note2"]
                          /\ fails' = fails
               /\ UNCHANGED << sc, st, openedAt, probe, lock, res, now, 
                               opened_at, should_open, cutoff, op, k >>

note2(self) == /\ pc[self] = "note2"
               /\ fails' = Append(fails, now[self])
               /\ pc' = [pc EXCEPT ![self] = "note15"]
               /\ UNCHANGED << sc, st, openedAt, probe, lock, res, now, 
                               opened_at, should_open, cutoff, op, k >>

note15(self) == /\ pc[self] = "note15"
                /\ should_open' = [should_open EXCEPT ![self] = Len(fails) >= Cfg.thr]
                /\ pc' = [pc EXCEPT ![self] = "record_failure17"]
                /\ UNCHANGED << sc, st, openedAt, probe, fails, lock, res, now, 
                                opened_at, cutoff, op, k >>

record_failure17(self) == /\ pc[self] = "record_failure17"
                          /\ IF should_open[self]
                                THEN /\ pc' = [pc EXCEPT ![self] = "record_failure18"]
                                ELSE /\ pc' = [pc EXCEPT ![self] = "record_failure22"]
                          /\ UNCHANGED << sc, st, openedAt, probe, fails, lock, 
                                          res, now, opened_at, should_open, 
                                          cutoff, op, k >>

record_failure18(self) == /\ pc[self] = "record_failure18"
                          /\ st' = "open"
                          /\ pc' = [pc EXCEPT ![self] = "record_failure19"]
                          /\ UNCHANGED << sc, openedAt, probe, fails, lock, 
                                          res, now, opened_at, should_open, 
                                          cutoff, op, k >>

record_failure19(self) == /\ pc[self] = "record_failure19"
                          /\ openedAt' = now[self]
                          /\ pc' = [pc EXCEPT ![self] = "record_failure20"]
                          /\ UNCHANGED << sc, st, probe, fails, lock, res, now, 
                                          opened_at, should_open, cutoff, op, 
                                          k >>

record_failure20(self) == /\ pc[self] = "record_failure20"
                          /\ fails' = <<>>
                          /\ pc' = [pc EXCEPT ![self] = "record_failure21"]
                          /\ UNCHANGED << sc, st, openedAt, probe, lock, res, 
                                          now, opened_at, should_open, cutoff, 
                                          op, k >>

record_failure21(self) == /\ pc[self] = "record_failure21"
                          /\ res' = [res EXCEPT ![self] = <<TRUE, "circuit_opened">>]
                          /\ pc' = [pc EXCEPT ![self] = "release"]
                          /\ UNCHANGED << sc, st, openedAt, probe, fails, lock, 
                                          now, opened_at, should_open, cutoff, 
                                          op, k >>

record_failure22(self) == /\ pc[self] = "record_failure22"
                          /\ res' = [res EXCEPT ![self] = <<TRUE, "-">>]
                          /\ pc' = [pc EXCEPT ![self] = "release"]
                          /\ UNCHANGED << sc, st, openedAt, probe, fails, lock, 
                                          now, opened_at, should_open, cutoff, 
                                          op, k >>

record_cancel1(self) == /\ pc[self] = "record_cancel1"
                        /\ TRUE
                        /\ pc' = [pc EXCEPT ![self] = "record_cancel1a"]
                        /\ UNCHANGED << sc, st, openedAt, probe, fails, lock, 
                                        res, now, opened_at, should_open, 
                                        cutoff, op, k >>

record_cancel1a(self) == /\ pc[self] = "record_cancel1a"
                         /\ ~Locked \/ lock = 0
                         /\ IF Locked
                               THEN /\ lock' = self
                               ELSE /\ TRUE
                                    /\ lock' = lock
                         /\ pc' = [pc EXCEPT ![self] = "record_cancel2"]
                         /\ UNCHANGED << sc, st, openedAt, probe, fails, res, 
                                         now, opened_at, should_open, cutoff, 
                                         op, k >>

record_cancel2(self) == /\ pc[self] = "record_cancel2"
                        /\ IF st = "half"
                              THEN /\ pc' = [pc EXCEPT ![self] = "record_cancel3"]
                              ELSE /\ pc' = [pc EXCEPT ![self] = "record_cancel4"]
                        /\ UNCHANGED << sc, st, openedAt, probe, fails, lock, 
                                        res, now, opened_at, should_open, 
                                        cutoff, op, k >>

record_cancel3(self) == /\ pc[self] = "record_cancel3"
                        /\ probe' = FALSE
                        /\ pc' = [pc EXCEPT ![self] = "record_cancel4"]
                        /\ UNCHANGED << sc, st, openedAt, fails, lock, res, 
                                        now, opened_at, should_open, cutoff, 
                                        op, k >>

record_cancel4(self) == /\ pc[self] = "record_cancel4"
                        /\ res' = [res EXCEPT ![self] = <<TRUE, "-">>]
                        /\ pc' = [pc EXCEPT ![self] = "release"]
                        /\ UNCHANGED << sc, st, openedAt, probe, fails, lock, 
                                        now, opened_at, should_open, cutoff, 
                                        op, k >>

release(self) == /\ pc[self] = "release"
                 /\ IF Locked
                       THEN /\ lock' = 0
                       ELSE /\ TRUE
                            /\ lock' = lock
                 /\ pc' = [pc EXCEPT ![self] = "Done"]
                 /\ UNCHANGED << sc, st, openedAt, probe, fails, res, now, 
                                 opened_at, should_open, cutoff, op, k >>

th(self) == start(self) \/ dispatch(self) \/ allow1(self) \/ allow2(self)
               \/ allow2a(self) \/ allow3(self) \/ allow4(self)
               \/ allow5(self) \/ allow6(self) \/ allow7(self)
               \/ allow8(self) \/ allow9(self) \/ allow10(self)
               \/ allow11(self) \/ allow12(self) \/ allow14(self)
               \/ allow15(self) \/ allow16(self) \/ allow21(self)
               \/ allow22(self) \/ allow24(self) \/ record_success1(self)
               \/ record_success1a(self) \/ record_success2(self)
               \/ record_success3(self) \/ record_success4(self)
               \/ record_success5(self) \/ record_success6(self)
               \/ record_success7(self) \/ record_success8(self)
               \/ record_failure1(self) \/ record_failure2(self)
               \/ record_failure2a(self) \/ record_failure3(self)
               \/ record_failure4(self) \/ record_failure5(self)
               \/ record_failure6(self) \/ record_failure7(self)
               \/ record_failure8(self) \/ record_failure10(self)
               \/ record_failure11(self) \/ record_failure13(self)
               \/ record_failure14(self) \/ record_failure16(self)
               \/ prune(self) \/ note2(self) \/ note15(self)
               \/ record_failure17(self) \/ record_failure18(self)
               \/ record_failure19(self) \/ record_failure20(self)
               \/ record_failure21(self) \/ record_failure22(self)
               \/ record_cancel1(self) \/ record_cancel1a(self)
               \/ record_cancel2(self) \/ record_cancel3(self)
               \/ record_cancel4(self) \/ release(self)

(* Allow infinite stuttering to prevent deadlock on termination. *)
Terminating == /\ \A self \in ProcSet: pc[self] = "Done"
               /\ UNCHANGED vars

Next == (\E self \in Threads: th(self))
           \/ Terminating

Spec == Init /\ [][Next]_vars

Termination == <>(\A self \in ProcSet: pc[self] = "Done")

\* END TRANSLATION

(***************************************************************************)
(* Properties                                                              *)
(***************************************************************************)
InLocked(t) == pc[t] \notin {"start", "dispatch", "allow1", "allow2", "allow2a", "record_success1",
                             "record_success1a", "record_failure1", "record_failure2", "record_failure2a",
                             "record_cancel1", "record_cancel1a", "Done"}
MutualExclusion == Locked => \A a, b \in Threads : (a # b /\ InLocked(a)) => ~InLocked(b)

AllDone == \A t \in Threads : pc[t] = "Done"

Perms == { f \in [1..Cardinality(Threads) -> Threads] : \A a, b \in DOMAIN f : a # b => f[a] # f[b] }

RECURSIVE Explains(_, _, _)
Explains(order, i, b0) ==
    IF i > Len(order) THEN
        b0.st = st /\ b0.probe = probe /\ b0.fails = fails
        /\ (b0.st = "open" => b0.openedAt = openedAt)
    ELSE LET t == order[i]
             r == B!BApply([sc.cfg EXCEPT !.cthr = NoThr], b0, sc.prog[t].op, sc.prog[t].k, sc.clock)
         IN  <<r.allowed, r.ev>> = res[t] /\ Explains(order, i + 1, r.b)

InitB == [st |-> sc.init.st, openedAt |-> sc.init.openedAt, probe |-> sc.init.probe,
          fails |-> sc.init.fails, cfails |-> [c \in Classes |-> <<>>]]

Linearizable == AllDone => \E f \in Perms : Explains([i \in 1..Cardinality(Threads) |-> f[i]], 1, InitB)

(***************************************************************************)
(* Scenarios: every pair (triple) of operations from every relevant state  *)
(***************************************************************************)
C1 == [thr |-> 1, W |-> 8, R |-> 2, trip |-> {"TRANSIENT"}, cthr |-> NoThr]
C2 == [C1 EXCEPT !.thr = 2]
I(s, oa, p, f) == [st |-> s, openedAt |-> oa, probe |-> p, fails |-> f]
States == { <<C2, I("closed", -1, FALSE, <<>>), 1>>, <<C2, I("closed", -1, FALSE, <<0>>), 1>>,
            <<C1, I("closed", -1, FALSE, <<>>), 1>>,
            <<C1, I("open", 0, FALSE, <<>>), 1>>, <<C1, I("open", 0, FALSE, <<>>), 2>>,
            <<C1, I("half", 0, TRUE, <<>>), 2>>, <<C1, I("half", 0, FALSE, <<>>), 2>>,
            <<C2, I("half", 0, TRUE, <<>>), 2>> }
Ops == { [op |-> "allow", k |-> "-"], [op |-> "ok", k |-> "-"], [op |-> "fail", k |-> "TRANSIENT"],
         [op |-> "fail", k |-> "UNKNOWN"], [op |-> "cancel", k |-> "-"] }
AllScenarios == { [cfg |-> s[1], init |-> s[2], clock |-> s[3], prog |-> p] :
                    s \in States, p \in [Threads -> Ops] }
=============================================================================
