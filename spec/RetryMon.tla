------------------------------ MODULE RetryMon ------------------------------
(***************************************************************************)
(* P: property monitors over the observable event stream of one policy     *)
(* object's retry runs (events as defined in RetryLoop.tla).               *)
(*                                                                         *)
(* MonStep(c, m, ev) consumes one event and returns the next monitor state;*)
(* m.viol accumulates the names of violated clauses, each prefixed by the  *)
(* property it belongs to ("C03:sleep-without-retry").  The monitors know  *)
(* nothing about how the library is implemented: they keep their own       *)
(* counters and accept every event stream the property statements allow    *)
(* (any member of the set of stop conditions that hold, any order of the   *)
(* internal checks).  They are used                                        *)
(*   - in RetryMC:    M |= P, exhaustively,                                *)
(*   - in RetryTrace: verdict on traces recorded from the real code.       *)
(*                                                                         *)
(* Boundary conventions (DESIGN 2.4): an attempt may start while elapsed   *)
(* <= D; a failure observed at elapsed >= D is never retried; after a      *)
(* sleep the run stops for the deadline iff elapsed > D.                   *)
(***************************************************************************)
EXTENDS Integers, Sequences, FiniteSets

BudP == INSTANCE Budget          \* property-level reference of the shared budget (C10)

None == -1
Unobs == -2
SleeperExc == -3
BSleepExc == -4
NonRetry == {"PERMANENT", "AUTH", "PERMISSION"}
AllClasses == {"AUTH", "PERMISSION", "PERMANENT", "CONCURRENCY", "RATE_LIMIT", "SERVER_ERROR",
               "TRANSIENT", "UNKNOWN"}
CancelOuts == {"cancel", "kbd", "sysexit", "nested"}
SleepFaults == {"kbd", "sysexit", "cancel"}
StopReasons == {"MAX_ATTEMPTS_GLOBAL", "MAX_ATTEMPTS_PER_CLASS", "DEADLINE_EXCEEDED",
                "MAX_UNKNOWN_ATTEMPTS", "NON_RETRYABLE_CLASS", "NO_STRATEGY", "BUDGET_EXHAUSTED",
                "SCHEDULED", "ABORTED"}

Lim(c, k)  == IF k \in DOMAIN c.lim THEN c.lim[k] ELSE None
StrategyFor(c, k) == IF k \in c.strat THEN k ELSE IF c.hasDefault THEN "default" ELSE "-"

StopEventName(stop) ==
    CASE stop = "MAX_ATTEMPTS_PER_CLASS" -> "max_attempts_exceeded"
      [] stop = "NON_RETRYABLE_CLASS"    -> "permanent_fail"
      [] stop = "MAX_UNKNOWN_ATTEMPTS"   -> "max_unknown_attempts_exceeded"
      [] stop = "DEADLINE_EXCEEDED"      -> "deadline_exceeded"
      [] stop = "NO_STRATEGY"            -> "no_strategy_configured"
      [] stop = "MAX_ATTEMPTS_GLOBAL"    -> "max_attempts_exceeded"
      [] stop = "BUDGET_EXHAUSTED"       -> "budget_exhausted"
      [] stop = "SCHEDULED"              -> "scheduled"
      [] stop = "ABORTED"                -> "aborted"
      [] OTHER                           -> "?"

Sanitise(ret, rem) ==
    LET v0 == IF ret.kind = "val" THEN ret.v ELSE 0
        v1 == IF v0 < 0 THEN 0 ELSE v0
    IN  IF v1 < rem THEN v1 ELSE rem

Advance(adv, s) == CASE adv = "exact" -> s
                     [] adv = "over1" -> s + 1
                     [] adv = "over4" -> s + 4
                     [] OTHER         -> 0

ZeroCount == [k \in AllClasses |-> 0]

(***************************************************************************)
(* Monitor state.  Run-level facts, then facts about the current "episode" *)
(* (from the classification of a failure to the next invoke or deliver).   *)
(***************************************************************************)
MInit ==
    [viol    |-> {},
     \* ---- run level
     ninv    |-> 0,          \* operation invocations in this run
     phase   |-> "idle",     \* idle | inv | failed | ok | end
     lastout |-> "-",        \* outcome of the last invocation
     eobj    |-> None,       \* identity of the exception object raised last ("excsame" re-raises it)
     lastobj |-> None,       \* identity of the object the last invocation raised / returned
     invt1   |-> 0,          \* elapsed time when the last invocation returned
     nfail   |-> ZeroCount,  \* classified failures per class (this run)
     granted |-> ZeroCount,  \* invocations that directly followed a failure of class k
     nonretry|-> FALSE,      \* a PERMANENT/AUTH/PERMISSION failure was classified
     lk      |-> "-", lcause |-> "-", lid |-> None,   \* last classified failure
     pk      |-> "-", pcause |-> "-", pid |-> None,   \* the classified failure before that
     amb     |-> FALSE,      \* abort requested between a result's classification and its
                             \* processing: the outcome may describe either failure
     abortReq|-> FALSE,      \* abort_if answered True / operation raised AbortRetryError
     abortOwn|-> FALSE,
     cancel  |-> None,       \* id of a cancellation-type exception that must propagate (None: none)
     cancelOn|-> FALSE,
     pollSince |-> FALSE,    \* abort_if polled since the last invoke / sleep / start
     pollAfterRetry |-> FALSE, \* abort_if polled since the retry decision was reported
     prevApplied |-> None,   \* delay applied to the previous retry of this run
     sumSleep|-> 0, fullSleeps |-> TRUE,
     nretry  |-> 0,          \* `retry` events so far
     terminal|-> "-",        \* stop tag of the terminal event ("ok" for success), "-" none yet
     termk   |-> "-", termcause |-> "-", termt |-> 0,
     emits   |-> <<>>,
     bg      |-> <<>>,       \* grant log of the shared budget: survives across runs
     rg      |-> <<>>,       \* times at which retries were granted under the shared budget
     epoch   |-> 0,          \* absolute time of the start of the current run       \* the events the metric/log sinks received in this run
     \* ---- episode level
     fk      |-> "-", fcause |-> "-", fra |-> None, ft |-> 0,
     hard    |-> {},         \* hard stop conditions that hold for the current failure
     nstrat  |-> 0, applied |-> None, tstrat |-> 0,
     consumed|-> "-",        \* "-" | "ok" | "denied"
     retried |-> FALSE,      \* `retry` event seen in this episode
     hdec    |-> "-",        \* sleep-handler decision
     nhandler|-> 0, bslept |-> FALSE, slept |-> FALSE, aftersleep |-> 0]

V(m, cond, name) == IF cond THEN m ELSE [m EXCEPT !.viol = @ \cup {name}]

\* chain of checks: Checks(m, <<<<cond, name>>, ...>>)
RECURSIVE Checks(_, _)
Checks(m, cs) == IF cs = <<>> THEN m ELSE Checks(V(m, Head(cs)[1], Head(cs)[2]), Tail(cs))

EpisodeReset(m) ==
    [m EXCEPT !.fk = "-", !.fcause = "-", !.fra = None, !.hard = {}, !.nstrat = 0,
              !.applied = None, !.consumed = "-", !.retried = FALSE, !.hdec = "-",
              !.nhandler = 0, !.bslept = FALSE, !.slept = FALSE]

\* a retry (another attempt) is permitted after the current failure
Permitted(c, m) ==
    /\ m.hard = {}
    /\ m.consumed # "denied"
    /\ (c.budget # None => m.consumed = "ok")
    /\ ~m.abortReq
    /\ m.hdec \in {"-", "sleep"}
    /\ (m.slept => m.aftersleep <= c.D)

\* the current failure was granted a retry (caps, deadline, strategy, budget)
Granted(c, m) ==
    /\ m.phase = "failed" /\ m.hard = {}
    /\ (IF c.budget = None THEN m.consumed = "-" ELSE m.consumed = "ok")

\* stop reason R is one of the stop conditions that actually hold
Justified(c, m, R) ==
    \/ R \in m.hard
    \/ R = "BUDGET_EXHAUSTED" /\ m.consumed = "denied"
    \/ R = "ABORTED" /\ (m.abortReq \/ m.hdec = "abort")
    \/ R = "SCHEDULED" /\ m.hdec = "defer"
    \/ R = "DEADLINE_EXCEEDED" /\ m.slept /\ m.aftersleep > c.D
    \/ R = "MAX_ATTEMPTS_GLOBAL" /\ c.maxAtt = 0 /\ m.ninv = 0

(***************************************************************************)
(* poll                                                                    *)
(***************************************************************************)
OnPoll(c, m, ev) ==
    LET m1 == Checks(m, <<
          <<c.abort, "C13:poll-without-abort-predicate">>,
          <<~m.cancelOn, "C13:work-after-cancellation">> >>)
    IN  [m1 EXCEPT !.pollSince = TRUE, !.pollAfterRetry = TRUE, !.abortReq = @ \/ ev.ans,
                   !.amb = @ \/ (ev.ans /\ m.phase = "failed" /\ m.nstrat = 0 /\ m.terminal = "-")]

(***************************************************************************)
(* invoke                                                                  *)
(***************************************************************************)
OnInvoke(c, m, ev) ==
    LET fk == m.fk
        g1 == IF fk # "-" THEN [m.granted EXCEPT ![fk] = @ + 1] ELSE m.granted
        m1 == Checks(m, <<
          <<m.ninv + 1 <= c.maxAtt,                     "C01:max-attempts-exceeded">>,
          <<~m.nonretry,                                 "C01:attempt-after-non-retryable-failure">>,
          <<fk = "-" \/ Lim(c, fk) = None \/ g1[fk] <= Lim(c, fk),
                                                         "C01:per-class-cap-exceeded">>,
          <<fk # "UNKNOWN" \/ c.maxUnk = None \/ g1["UNKNOWN"] <= c.maxUnk,
                                                         "C01:unknown-cap-exceeded">>,
          <<ev.t <= c.D,                                 "C02:attempt-started-after-deadline">>,
          <<m.phase = "failed" => ~(m.ft >= c.D),        "C02:retry-of-failure-observed-at-or-after-deadline">>,
          <<m.phase = "failed" => Permitted(c, m),       "C03:retry-not-permitted">>,
          <<m.phase # "ok",                              "C03:attempt-after-success">>,
          <<m.phase = "failed" => (m.nstrat = 1),        "C05:granted-retry-without-exactly-one-strategy-call">>,
          <<m.phase = "failed" => m.retried,             "C14:retry-not-reported">>,
          <<c.abort => m.pollSince,                      "C13:no-abort-poll-before-attempt">>,
          <<~m.abortReq,                                 "C13:attempt-after-abort-request">>,
          <<~m.cancelOn,                                 "C13:work-after-cancellation">>,
          <<m.phase = "failed" /\ c.handler => m.hdec = "sleep", "C16:attempt-without-sleep-decision">>,
          <<m.phase = "failed" /\ m.hdec \in {"-", "sleep"} => m.slept, "C16:granted-retry-did-not-sleep">>,
          <<m.phase # "inv",                             "C03:attempt-outcome-not-processed">>,
          <<m.terminal = "-",                            "C14:event-after-terminal">> >>)
        m2 == EpisodeReset(m1)
        obj == IF ev.out = "excsame" /\ m.eobj # None THEN m.eobj ELSE m.ninv + 1
    IN  [m2 EXCEPT !.ninv = @ + 1, !.granted = g1, !.lastout = ev.out, !.invt1 = ev.t1,
                   !.eobj = IF ev.out \in {"exc", "excsame", "hang"} THEN obj ELSE @, !.lastobj = obj,
                   !.pollSince = FALSE,
                   !.phase = IF ev.out = "ok" /\ ~c.rc THEN "ok" ELSE "inv",
                   !.abortReq = @ \/ ev.out = "abort",
                   !.abortOwn = ev.out = "abort",
                   !.cancelOn = ev.out \in CancelOuts,
                   !.cancel = IF ev.out \in CancelOuts THEN m.ninv + 1 ELSE None]

(***************************************************************************)
(* classification of an attempt's outcome                                  *)
(***************************************************************************)
HardSet(c, m, k, nf, t) ==
    (IF k \in NonRetry THEN {"NON_RETRYABLE_CLASS"} ELSE {})
    \cup (IF StrategyFor(c, k) = "-" THEN {"NO_STRATEGY"} ELSE {})
    \cup (IF m.ninv >= c.maxAtt THEN {"MAX_ATTEMPTS_GLOBAL"} ELSE {})
    \cup (IF Lim(c, k) # None /\ nf[k] > Lim(c, k) THEN {"MAX_ATTEMPTS_PER_CLASS"} ELSE {})
    \cup (IF k = "UNKNOWN" /\ c.maxUnk # None /\ nf[k] > c.maxUnk THEN {"MAX_UNKNOWN_ATTEMPTS"} ELSE {})
    \cup (IF t >= c.D THEN {"DEADLINE_EXCEEDED"} ELSE {})

\* tc: the instant the classification was available (time may pass inside a classifier)
Failed(c, m, k, cause, ra, n, tc) ==
    LET nf == [m.nfail EXCEPT ![k] = @ + 1] IN
    [m EXCEPT !.phase = "failed", !.fk = k, !.fcause = cause, !.fra = ra, !.ft = tc,
              !.nfail = nf, !.nonretry = @ \/ k \in NonRetry,
              !.lk = k, !.lcause = cause, !.lid = n,
              !.pk = m.lk, !.pcause = m.lcause, !.pid = m.lid,
              !.hard = HardSet(c, m, k, nf, tc)]

OnRClassify(c, m, ev) ==
    LET m1 == Checks(m, <<
          <<c.rc,                          "C11:result-classifier-not-configured">>,
          <<m.phase = "inv" /\ m.lastout \in {"ok", "res"} /\ ev.n = m.ninv,
                                           "C03:result-classified-out-of-turn">>,
          <<~m.cancelOn,                   "C13:cancellation-classified">>,
          <<~(m.abortOwn),                 "C13:work-after-abort-request">> >>)
    IN  IF ev.k = "none" THEN [m1 EXCEPT !.phase = "ok"]
        ELSE Failed(c, m1, ev.k, "result", ev.ra, ev.n, ev.t + ev.dur)

OnClassify(c, m, ev) ==
    LET m1 == Checks(m, <<
          <<m.phase = "inv" /\ m.lastout \in {"exc", "excsame", "hang"} /\ ev.n = m.lastobj,
                                           "C03:exception-classified-out-of-turn">>,
          \* an attempt that returned a value has succeeded or failed by its result: nothing of the
          \* library's own making may turn it into an exception-caused failure
          <<~(m.phase = "inv" /\ m.lastout \in {"ok", "res"}),
                                           "C11:returned-value-reported-as-exception">>,
          <<~(m.phase = "inv" /\ m.lastout \in {"ok", "res"}),
                                           "C04:returned-value-reported-as-exception">>,
          <<~m.cancelOn,                   "C13:cancellation-classified">>,
          <<~m.abortReq,                   "C13:work-after-abort-request">> >>)
    IN  Failed(c, m1, ev.k, "exception", ev.ra, ev.n, ev.t + ev.dur)

(***************************************************************************)
(* strategy / budget                                                       *)
(***************************************************************************)
OnStrategy(c, m, ev) ==
    LET rem == c.D - ev.t          \* the time remaining when the strategy is asked
        obs(x) == x # Unobs
        m1 == Checks(m, <<
          <<m.phase = "failed",                      "C05:strategy-called-outside-a-failure">>,
          <<m.nstrat = 0,                            "C05:strategy-called-more-than-once">>,
          <<ev.which = StrategyFor(c, m.fk),         "C05:wrong-strategy-consulted">>,
          <<ev.n = m.ninv,                           "C05:strategy-attempt-number">>,
          <<ev.k = m.fk,                             "C05:strategy-class">>,
          <<~obs(ev.ra) \/ ev.ra = m.fra,            "C05:strategy-retry-after">>,
          <<ev.prev = m.prevApplied,                 "C05:strategy-prev-sleep">>,
          <<~obs(ev.rem) \/ ev.rem = rem,            "C05:strategy-remaining">>,
          <<ev.cause = "?" \/ ev.cause = m.fcause,   "C05:strategy-cause">>,
          <<~m.abortReq,                             "C13:work-after-abort-request">>,
          <<~m.cancelOn,                             "C13:work-after-cancellation">> >>)
    IN  [m1 EXCEPT !.nstrat = @ + 1, !.applied = Sanitise(ev.ret, rem), !.tstrat = ev.t]

OnConsume(c, m, ev) ==
    LET m1 == Checks(m, <<
          <<c.budget # None,                         "C10:consume-without-budget">>,
          <<m.phase = "failed" /\ m.hard = {},       "C03:budget-token-spent-without-permitted-retry">>,
          <<m.consumed = "-",                        "C03:budget-consulted-twice">> >>)
        bc == [max |-> c.budget, W |-> c.bW]
        r  == IF ev.ok THEN 1 ELSE 0
    IN  [m1 EXCEPT !.consumed = IF ev.ok THEN "ok" ELSE "denied",
                   !.viol = @ \cup (IF c.budget # None THEN BudP!GJudge(bc, m.bg, "consume", 1, ev.at, r) ELSE {}),
                   !.bg = BudP!GNext(bc, m.bg, "consume", 1, ev.at, r)]

(***************************************************************************)
(* emitted events (metric + log sinks received the identical record)       *)
(***************************************************************************)
EmitRec(ev) == [name |-> ev.name, n |-> ev.n, sleep |-> ev.sleep, k |-> ev.k, stop |-> ev.stop,
                cause |-> ev.cause]

OnEmit0(c, m, ev) ==
    IF ev.name = "retry" THEN
        LET m1 == Checks(m, <<
              <<m.terminal = "-",                    "C14:event-after-terminal">>,
              <<Granted(c, m),                       "C03:retry-reported-without-permitted-retry">>,
              <<~m.retried,                          "C14:duplicate-retry-event">>,
              <<ev.n = m.nretry + 1 /\ ev.n = m.ninv, "C14:retry-attempt-number">>,
              <<ev.sleep = m.applied,                "C05:retry-event-delay">>,
              <<ev.sleep = m.applied,                "C14:retry-event-delay">>,
              <<ev.k = m.fk /\ ev.cause = m.fcause /\ ev.err = (m.fcause = "exception")
                  /\ ev.stop = "-" /\ ev.op = c.opname,
                                                     "C14:retry-tags">>,
              <<ev.ra = m.fra,                       "C14:retry-after-field">>,
              \* C10 speaks about the retries granted, whatever the budget object was asked:
              \* each one holds a token, and no window holds more than max of them
              <<c.budget = None \/ m.consumed = "ok", "C10:retry-granted-without-budget-token">>,
              <<c.budget = None \/ BudP!WindowBound([max |-> c.budget, W |-> c.bW],
                                                    Append(m.rg, m.epoch + ev.t)),
                                                     "C10:retries-granted-exceed-window-bound">> >>)
        IN  [m1 EXCEPT !.retried = TRUE, !.rg = IF c.budget = None THEN @ ELSE Append(@, m.epoch + ev.t), !.nretry = @ + 1, !.prevApplied = m.applied,
                       !.pollAfterRetry = FALSE]
    ELSE IF ev.name = "success" THEN
        LET m1 == Checks(m, <<
              <<m.terminal = "-",                    "C14:second-terminal-event">>,
              <<m.phase = "ok",                      "C14:success-event-without-success">>,
              <<ev.n = m.ninv /\ ev.sleep = 0 /\ ev.stop = "-" /\ ev.k = "-" /\ ev.op = c.opname,
                                                     "C14:success-tags">> >>)
        IN  [m1 EXCEPT !.terminal = "ok", !.termt = ev.t]
    ELSE
        \* terminal failure / abort / deferral events
        LET isAbort == ev.stop = "ABORTED"
            m1 == Checks(m, <<
              <<m.terminal = "-",                    "C14:second-terminal-event">>,
              <<ev.stop \in StopReasons /\ ev.name = StopEventName(ev.stop),
                                                     "C14:event-name-vs-stop-reason">>,
              <<ev.op = c.opname,                    "C14:operation-tag">>,
              <<isAbort => (ev.k = "-" /\ ~ev.err /\ ev.cause = "-" /\ ev.sleep = 0),
                                                     "C14:abort-event-tags">>,
              <<(~isAbort /\ m.ninv > 0) =>
                    (ev.k = m.lk /\ ev.cause = m.lcause /\ ev.err = (m.lcause = "exception")
                       /\ ev.n = m.ninv),
                                                     "C14:terminal-tags">>,
              <<ev.stop = "SCHEDULED" => ev.sleep = m.applied, "C14:scheduled-delay">>,
              <<(ev.stop # "SCHEDULED") => ev.sleep = 0,       "C14:terminal-sleep-field">>,
              <<Justified(c, m, ev.stop),            "C03:stop-reason-does-not-hold">>,
              \* BUDGET_EXHAUSTED only when the shared window really is full at this instant
              <<(ev.stop = "BUDGET_EXHAUSTED" /\ c.budget # None) =>
                    BudP!InWindow([max |-> c.budget, W |-> c.bW], m.bg, m.epoch + ev.t) + 1 > c.budget,
                                                     "C10:refused-although-capacity">> >>)
        IN  [m1 EXCEPT !.terminal = ev.stop, !.termk = ev.k, !.termcause = ev.cause, !.termt = ev.t]

\* (optag: the harness adds this field when the operation tag is neither the name the caller gave
\* nor, for a decorated function, that function's own name)
OnEmit(c, m, ev) ==
    LET m1 == V(OnEmit0(c, m, ev), "optag" \notin DOMAIN ev, "C14:operation-tag-names-something-else")
    IN  [m1 EXCEPT !.emits = Append(m.emits, EmitRec(ev))]

\* execute(capture_timeline=True): the captured timeline is the metric/log stream
OnTimeline(c, m, ev) ==
    V(m, ev.events = m.emits, "C14:timeline-differs-from-metric-and-log-stream")

(***************************************************************************)
(* sleep handler / before_sleep / sleeper                                  *)
(***************************************************************************)
OnHandler(c, m, ev) ==
    LET m1 == Checks(m, <<
          <<c.handler,                               "C16:handler-not-configured">>,
          <<m.phase = "failed" /\ m.retried,         "C16:handler-consulted-without-granted-retry">>,
          <<m.nhandler = 0,                          "C16:handler-consulted-twice">>,
          <<ev.sleep = m.applied,                    "C16:handler-delay">>,
          <<ev.sleep = m.applied,                    "C05:handler-delay">>,
          <<ev.n = m.ninv,                           "C16:handler-attempt">>,
          <<c.abort => m.pollAfterRetry,             "C13:no-abort-poll-between-retry-decision-and-sleep">>,
          <<c.abort => m.pollAfterRetry,             "C03:backoff-without-asking-whether-abort-is-requested">>,
          <<~m.abortReq,                             "C13:work-after-abort-request">>,
          <<~m.slept,                                "C16:handler-after-sleep">> >>)
    IN  [m1 EXCEPT !.nhandler = @ + 1, !.hdec = ev.dec]

OnBSleep(c, m, ev) ==
    LET m1 == Checks(m, <<
          <<c.bsleep,                                "C16:before-sleep-not-configured">>,
          <<m.phase = "failed" /\ m.retried,         "C16:before-sleep-without-granted-retry">>,
          <<c.handler => m.hdec = "sleep",           "C16:before-sleep-without-sleep-decision">>,
          <<~m.bslept /\ ~m.slept,                   "C16:before-sleep-order">>,
          <<ev.sleep = m.applied,                    "C05:before-sleep-delay">>,
          <<~m.abortReq,                             "C13:work-after-abort-request">> >>)
    IN  [m1 EXCEPT !.bslept = TRUE,
                   !.cancelOn = ev.fault \in SleepFaults,
                   !.cancel = IF ev.fault \in SleepFaults THEN BSleepExc ELSE m.cancel]

OnSleep(c, m, ev) ==
    LET total == m.sumSleep + ev.s
        full  == m.fullSleeps /\ (ev.t1 - ev.t >= ev.s)
        m1 == Checks(m, <<
          <<ev.ut >= 0,                              "C02:negative-sleep">>,
          \* "the time then remaining": when the delay was computed (hooks may take time after that)
          <<LET rem == c.D - (IF m.nstrat > 0 THEN m.tstrat ELSE ev.t)
            IN  ev.ut < rem \/ (ev.ut = rem /\ ev.us = 0),
                                                     "C02:sleep-longer-than-remaining-time">>,
          <<~full \/ ev.s < 0 \/ total <= c.D,       "C02:total-sleep-exceeds-deadline">>,
          <<m.phase = "failed" => ~(m.ft >= c.D),    "C02:backoff-after-failure-at-or-after-deadline">>,
          <<Granted(c, m) /\ m.retried,              "C03:sleep-without-permitted-retry">>,
          <<ev.s = m.applied,                        "C05:sleeper-delay">>,
          <<c.abort => m.pollSince,                  "C13:no-abort-poll-before-sleep">>,
          <<c.abort => m.pollAfterRetry,             "C13:no-abort-poll-between-retry-decision-and-sleep">>,
          <<c.abort => m.pollAfterRetry,             "C03:backoff-without-asking-whether-abort-is-requested">>,
          <<~m.abortReq,                             "C13:sleep-after-abort-request">>,
          <<~m.cancelOn,                             "C13:work-after-cancellation">>,
          <<c.handler => m.hdec = "sleep",           "C16:sleep-without-sleep-decision">>,
          <<c.handler => m.nhandler = 1,             "C16:handler-not-consulted">>,
          <<~m.slept,                                "C16:more-than-one-sleep-per-retry">>,
          <<c.bsleep => m.bslept,                    "C16:before-sleep-not-called">> >>)
    IN  [m1 EXCEPT !.slept = TRUE, !.aftersleep = ev.t1, !.sumSleep = total, !.fullSleeps = full,
                   !.pollSince = FALSE,
                   !.cancelOn = ev.adv \in SleepFaults,
                   !.cancel = IF ev.adv \in SleepFaults THEN SleeperExc ELSE m.cancel]

(***************************************************************************)
(* delivery of the result: call() return/raise or execute() RetryOutcome   *)
(***************************************************************************)
\* facts common to both delivery styles
DeliverCommon(c, m, ev) ==
    LET v == ev.v IN
    Checks(m, <<
      \* cancellation-type exceptions propagate unchanged, and nothing else does
      <<m.cancelOn => (v.kind = "cancel" /\ v.id = m.cancel /\ v.own),
                                                     "C13:cancellation-not-propagated-unchanged">>,
      <<(v.kind = "cancel") => m.cancelOn,           "C11:unexpected-exception-propagated">>,
      <<m.phase # "inv" \/ m.cancelOn \/ m.abortReq, "C03:attempt-outcome-not-processed">>,
      \* a run that ends normally has exactly one terminal event
      <<m.cancelOn \/ m.terminal # "-",              "C14:no-terminal-event">>,
      <<(m.phase = "ok" /\ ~m.cancelOn) => m.terminal = "ok", "C14:terminal-vs-result">>,
      <<(m.phase = "failed" /\ ~m.cancelOn /\ m.terminal = "-" /\ Permitted(c, m)) => FALSE,
                                                     "C03:premature-stop">> >>)

\* the outcome's failure fields describe the failure (k, cause, id); all None when k = "-"
Describes(v, k, cause, id) ==
    /\ v.lastk = k /\ v.cause = cause
    /\ IF k = "-" THEN v.lexc = None /\ v.lres = None
       ELSE IF cause = "exception" THEN v.lexc = id /\ v.lres = None
       ELSE v.lres = id /\ v.lexc = None

OnDeliverExec(c, m, ev) ==
    LET v  == ev.v
        m0 == DeliverCommon(c, m, ev)
        stopped == v.kind = "outcome" /\ ~v.ok
    IN  IF v.kind = "cancel" THEN m0
        ELSE IF v.kind # "outcome" THEN
            \* execute() reports instead of raising
            V(m0, FALSE, "C11:execute-raised-instead-of-returning-an-outcome")
        ELSE
        Checks(m0, <<
          <<~m.cancelOn,                                 "C13:cancellation-swallowed">>,
          <<v.ok <=> (m.phase = "ok"),                   "C11:ok-iff-final-attempt-succeeded">>,
          <<v.ok => (v.id = m.ninv /\ v.stop = "-" /\ v.next = None),
                                                         "C11:value-is-final-attempts-result">>,
          <<v.attempts = m.ninv,                         "C11:attempts-equals-invocations">>,
          <<stopped => v.stop = m.terminal,              "C14:stop-reason-tag-vs-delivered">>,
          <<stopped => v.stop = m.terminal,              "C11:stop-reason-vs-events">>,
          <<stopped => Justified(c, m, v.stop),          "C03:stop-reason-does-not-hold">>,
          <<stopped => Justified(c, m, v.stop),          "C11:stop-reason-does-not-hold">>,
          <<(stopped /\ m.phase = "failed" /\ v.stop # "ABORTED") => ~Permitted(c, m),
                                                         "C03:premature-stop">>,
          <<stopped => (Describes(v, m.lk, m.lcause, m.lid)
                          \/ (m.amb /\ Describes(v, m.pk, m.pcause, m.pid))),
                                                         "C11:failure-fields-describe-final-failure">>,
          <<stopped => ((v.next # None) <=> (v.stop = "SCHEDULED")),
                                                         "C11:next-sleep-iff-scheduled">>,
          <<(stopped /\ v.stop = "SCHEDULED") => v.next = m.applied,
                                                         "C16:deferred-delay">>,
          <<(stopped /\ v.stop = "SCHEDULED") => v.next = m.applied,
                                                         "C05:next-sleep-delay">>,
          <<m.abortReq => (stopped /\ v.stop = "ABORTED"), "C13:abort-request-not-honoured">>,
          <<m.hdec = "abort" => (stopped /\ v.stop = "ABORTED"), "C16:abort-decision-not-honoured">>,
          <<m.hdec = "defer" => (stopped /\ v.stop = "SCHEDULED"), "C16:defer-decision-not-honoured">> >>)

OnDeliverCall(c, m, ev) ==
    LET v  == ev.v
        m0 == DeliverCommon(c, m, ev)
        excStop == m.phase = "failed" /\ m.lcause = "exception" /\ m.hdec # "defer"
                   /\ ~m.abortReq /\ m.hdec # "abort"
        resStop == m.phase = "failed" /\ (m.lcause = "result" \/ m.hdec = "defer")
                   /\ ~m.abortReq /\ m.hdec # "abort"
    IN  IF v.kind = "cancel" THEN m0 ELSE
        Checks(m0, <<
          <<~m.cancelOn,                                 "C13:cancellation-swallowed">>,
          <<(v.kind = "ret") <=> (m.phase = "ok"),       "C04:returns-iff-an-attempt-succeeded">>,
          <<(v.kind = "ret") => v.id = m.ninv,           "C04:returned-object-is-first-success">>,
          <<excStop => (v.kind = "exc" /\ v.id = m.lid /\ v.id = m.lastobj /\ v.own),
                                                         "C04:raises-last-attempts-own-exception">>,
          <<(v.kind = "exc") => excStop,                 "C04:raised-exception-is-not-the-final-failure">>,
          <<resStop => v.kind = "exhausted",             "C04:result-or-deferral-raises-RetryExhaustedError">>,
          <<(v.kind = "exhausted") => resStop,           "C04:unexpected-RetryExhaustedError">>,
          <<(v.kind = "exhausted") =>
                (/\ v.stop = m.terminal
                 /\ v.attempts = m.ninv
                 /\ v.lastk = m.lk
                 /\ (IF m.lcause = "exception" THEN v.lexc = m.lid /\ v.lres = None
                                               ELSE v.lres = m.lid /\ v.lexc = None)
                 /\ ((v.next # None) <=> (v.stop = "SCHEDULED"))
                 /\ (v.stop = "SCHEDULED" => v.next = m.applied)),
                                                         "C04:RetryExhaustedError-fields">>,
          <<(v.kind = "exhausted") => Justified(c, m, v.stop), "C03:stop-reason-does-not-hold">>,
          <<(v.kind \in {"exc", "exhausted"} /\ m.phase = "failed") => ~Permitted(c, m),
                                                         "C03:premature-stop">>,
          <<(v.kind = "exhausted" /\ v.stop = "SCHEDULED") => v.next = m.applied,
                                                         "C16:deferred-delay">>,
          <<(v.kind = "exhausted" /\ v.stop = "SCHEDULED") => v.next = m.applied,
                                                         "C05:next-sleep-delay">>,
          <<(m.abortReq \/ m.hdec = "abort") <=> (v.kind = "abort"),
                                                         "C13:abort-iff-AbortRetryError">>,
          <<m.hdec = "abort" => v.kind = "abort",        "C16:abort-decision-not-honoured">>,
          <<m.hdec = "defer" => (v.kind = "exhausted" /\ v.stop = "SCHEDULED"),
                                                         "C16:defer-decision-not-honoured">>,
          <<(v.kind = "exc" /\ m.terminal \in {"ABORTED", "SCHEDULED", "ok", "-"}) => FALSE,
                                                         "C14:stop-reason-tag-vs-delivered">>,
          <<(v.kind = "runtime") => (c.maxAtt = 0),      "C04:unexpected-RuntimeError">>,
          <<v.kind \in {"ret", "exc", "exhausted", "abort", "runtime"},
                                                         "C04:unexpected-exception-type">> >>)

\* "no counter carries over between calls": a cap reported as the stop reason must be
\* justified by this run's own counters (Justified uses only this run's counters)
OnDeliver(c, m, ev) ==
    LET m1 == IF ev.mode = "call" THEN OnDeliverCall(c, m, ev) ELSE OnDeliverExec(c, m, ev)
        capStop == m.terminal \in {"MAX_ATTEMPTS_PER_CLASS", "MAX_UNKNOWN_ATTEMPTS",
                                   "MAX_ATTEMPTS_GLOBAL"}
        m2 == V(m1, capStop => Justified(c, m, m.terminal), "C01:cap-reported-without-own-counters")
    IN  [MInit EXCEPT !.viol = m2.viol, !.bg = m.bg, !.rg = m.rg, !.epoch = m.epoch + ev.t + ev.gap]

(***************************************************************************)
(* events the monitors do not know: sink disparity etc.                    *)
(***************************************************************************)
OnOther(c, m, ev) ==
    IF ev.e \in {"metric", "log"} THEN V(m, FALSE, "C14:metric-and-log-sinks-differ")
    ELSE IF ev.e = "decoy" THEN V(m, FALSE, "C16:policy-level-callback-used-despite-call-level-override")
    \* an attempt hook raising AbortRetryError is a request to abort, like the operation raising it
    ELSE IF ev.e = "fault" /\ ev.kind = "abort" /\ ev.site \in {"astart", "aend"}
         THEN [m EXCEPT !.abortReq = TRUE]
    ELSE m

MonStep(c, m, ev) ==
    CASE ev.e = "poll"      -> OnPoll(c, m, ev)
      [] ev.e = "invoke"    -> OnInvoke(c, m, ev)
      [] ev.e = "rclassify" -> OnRClassify(c, m, ev)
      [] ev.e = "classify"  -> OnClassify(c, m, ev)
      [] ev.e = "strategy"  -> OnStrategy(c, m, ev)
      [] ev.e = "consume"   -> OnConsume(c, m, ev)
      [] ev.e = "emit"      -> OnEmit(c, m, ev)
      [] ev.e = "handler"   -> OnHandler(c, m, ev)
      [] ev.e = "bsleep"    -> OnBSleep(c, m, ev)
      [] ev.e = "sleep"     -> OnSleep(c, m, ev)
      [] ev.e = "deliver"   -> OnDeliver(c, m, ev)
      [] ev.e = "timeline"  -> OnTimeline(c, m, ev)
      [] OTHER              -> OnOther(c, m, ev)
=============================================================================
