------------------------------ MODULE BreakerIndX ------------------------------
(***************************************************************************)
(* TLC cross-check binding the symbolic proof's formulation (BreakerInd)   *)
(* to the model the code is validated against (Breaker.tla): on every      *)
(* reachable state for small constants, each step of BreakerInd is         *)
(* Breaker!BApply of the recorded operation - same successor state, same   *)
(* admission and event - and its verdict `agree` is Breaker!RJudge = {}    *)
(* for the reference state that BreakerInd's P variables stand for.        *)
(* (On the current model `agree` never becomes FALSE; the second property  *)
(* is what ties the symbolic P to the reference the traces are judged by.) *)
(***************************************************************************)
EXTENDS BreakerInd, TLC

BoundedTimes == 0..8
B == INSTANCE Breaker WITH ClassSet <- {"K", "L", "N"}
c == [thr |-> Thr, W |-> W, R |-> R, trip |-> (IF KTrip THEN {"K", "L"} ELSE {"L"}),
      cthr |-> [k \in {"K", "L", "N"} |-> IF k = "K" THEN CThr ELSE 0]]

\* BreakerInd's M variables as a Breaker.tla state (buckets of classes without a threshold stay empty)
MState == [st |-> st, openedAt |-> openedAt, probe |-> probe, fails |-> fails,
           cfails |-> [k \in {"K", "L", "N"} |-> IF k = "K" THEN cf ELSE <<>>]]

StepIsBApply ==
    [][ LET r == B!BApply(c, MState, did'.op, did'.k, last') IN
        /\ MState' = r.b
        /\ did'.allowed = r.allowed
        /\ did'.ev = r.ev ]_<<st, openedAt, probe, fails, cf, phase, t0, out, logAll, logK, last, agree, did>>

\* BreakerInd's P variables as a reference state of Breaker.tla (its log rebuilt from logAll /
\* logK: one entry per counted failure, those also in logK of class K): the verdicts coincide
RECURSIVE Merge(_, _)
Merge(all, ks) ==
    IF all = <<>> THEN <<>>
    ELSE IF ks # <<>> /\ Head(ks) = Head(all)
         THEN <<[k |-> "K", t |-> Head(all)]>> \o Merge(Tail(all), Tail(ks))
         ELSE <<[k |-> "L", t |-> Head(all)]>> \o Merge(Tail(all), ks)
RState == [phase |-> phase, t0 |-> t0, out |-> out, log |-> Merge(logAll, logK), stale |-> <<>>,
           closedOnce |-> FALSE]

VerdictIsRJudge ==
    [][ agree' = (agree /\ B!RJudge(c, RState, did'.op, did'.k, last', did'.allowed, did'.ev, st') = {})
      ]_<<st, openedAt, probe, fails, cf, phase, t0, out, logAll, logK, last, agree, did>>

Spec == Init /\ [][Next]_<<st, openedAt, probe, fails, cf, phase, t0, out, logAll, logK, last, agree, did>>
Depth == TLCGet("level") <= 8
=============================================================================
