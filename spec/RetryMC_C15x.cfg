SPECIFICATION Spec
CONSTANTS
  Classes <- Classes4
  Outs <- OutsC12x
  Durs = {2}
  CDurs <- ZeroDur
  EDurs <- ZeroDur
  Rets <- RetsOne
  Advs <- AdvsExact
  Decs <- DecsAll
  BFaults <- BFaultsNone
  Ras <- RasSome
  Modes = {"call", "exec"}
  RunGaps <- GapsNone
  NRuns = 1
  Configs <- ConfigsC15x
  RecordHist = TRUE
INVARIANT NoViolation
INVARIANT ExportBehaviours
CHECK_DEADLOCK FALSE
