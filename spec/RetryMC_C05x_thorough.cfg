SPECIFICATION Spec
CONSTANTS
  Classes <- Classes4
  Outs <- OutsC05x
  Durs = {0}
  CDurs <- ZeroDur
  EDurs <- ZeroDur
  Rets <- RetsAll
  Advs <- AdvsExact
  Decs <- DecsAll
  BFaults <- BFaultsNone
  Ras <- RasSome
  Modes = {"call", "exec"}
  RunGaps <- GapsNone
  NRuns = 1
  Configs <- ConfigsC05x
  RecordHist = TRUE
INVARIANT NoViolation
INVARIANT ExportBehaviours
CHECK_DEADLOCK FALSE
