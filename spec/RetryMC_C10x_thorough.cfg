SPECIFICATION Spec
CONSTANTS
  Classes <- Classes4
  Outs <- OutsC10
  Durs = {1}
  CDurs <- ZeroDur
  EDurs <- ZeroDur
  Rets <- RetsOne
  Advs <- AdvsExact
  Decs <- DecsSleep
  BFaults <- BFaultsNone
  Ras <- RasNone
  Modes = {"exec"}
  RunGaps <- GapsC10
  NRuns = 3
  Configs <- ConfigsC10
  RecordHist = TRUE
INVARIANT NoViolation
INVARIANT ExportBehaviours
CHECK_DEADLOCK FALSE
