#!/usr/bin/env python3
"""Generates the RetryMC_*.cfg files (focused configurations per property, quick and thorough).
The constants named here are defined in RetryMC.tla.  Run from spec/: python3 gen_cfgs.py"""
BOTH = '{"call", "exec"}'
CALL, EXEC = '{"call"}', '{"exec"}'

def cfg(name, classes, outs, durs, rets, advs, decs, ras, modes, nruns, configs, hist,
        bf="BFaultsNone", gaps="GapsNone", cdurs="ZeroDur", edurs="ZeroDur"):
    inv = "INVARIANT NoViolation\n" + ("INVARIANT ExportBehaviours\n" if hist else
          "INVARIANT AttemptsBounded\nINVARIANT InvokeWithinDeadline\nINVARIANT SleepWithinRemaining\n"
          "INVARIANT DeliveriesRelated\n")
    open(f"RetryMC_{name}.cfg", "w").write(f"""SPECIFICATION Spec
CONSTANTS
  Classes <- {classes}
  Outs <- {outs}
  Durs = {durs}
  CDurs <- {cdurs}
  EDurs <- {edurs}
  Rets <- {rets}
  Advs <- {advs}
  Decs <- {decs}
  BFaults <- {bf}
  Ras <- {ras}
  Modes = {modes}
  RunGaps <- {gaps}
  NRuns = {nruns}
  Configs <- {configs}
  RecordHist = {"TRUE" if hist else "FALSE"}
{inv}CHECK_DEADLOCK FALSE
""")

# ---- quick tier: exhaustive check (no history) and behaviour export (x) ----------------------
cfg("C01", "ClassesCaps", "OutsCaps", "{0}", "RetsOne", "AdvsExact", "DecsSleep", "RasNone", BOTH, 2, "ConfigsC01", False)
cfg("C01x", "ClassesCaps", "OutsCaps", "{0}", "RetsOne", "AdvsExact", "DecsSleep", "RasNone", BOTH, 1, "ConfigsC01Small", True)
cfg("C02", "Classes4", "OutsC02", "{0, 1, 2, 5}", "RetsC02", "AdvsAll", "DecsSleep", "RasNone", BOTH, 1, "ConfigsC02", False, cdurs="SomeDur", edurs="SomeDur")
cfg("C02x", "Classes4", "OutsC02", "{0, 1}", "RetsThree", "AdvsThree", "DecsSleep", "RasNone", BOTH, 1, "ConfigsC02x", True, cdurs="SomeDur", edurs="SomeDur")
cfg("C03", "Classes4", "OutsC03", "{0, 1}", "RetsOne", "AdvsExact", "DecsAll", "RasNone", BOTH, 1, "ConfigsC03", False)
cfg("C03x", "Classes4", "OutsC03", "{1}", "RetsOne", "AdvsExact", "DecsAll", "RasNone", BOTH, 1, "ConfigsC03x", True)
cfg("C04", "Classes4", "OutsC04", "{0, 2}", "RetsOne", "AdvsExact", "DecsAll", "RasNone", CALL, 1, "ConfigsC04", False)
cfg("C04x", "Classes4", "OutsC04", "{2}", "RetsOne", "AdvsExact", "DecsAll", "RasNone", CALL, 1, "ConfigsC04", True)
cfg("C05", "Classes4", "OutsC05", "{0}", "RetsAll", "AdvsExact", "DecsAll", "RasSome", BOTH, 1, "ConfigsC05", False)
cfg("C05x", "Classes4", "OutsC05x", "{0}", "RetsAll", "AdvsExact", "DecsSleep", "RasSome", EXEC, 1, "ConfigsC05x", True)
cfg("C05", "Classes4", "OutsC05", "{0}", "RetsAll", "AdvsExact", "DecsAll", "RasSome", BOTH, 1, "ConfigsC05", False, edurs="SomeDur")
cfg("C05y", "Classes4", "OutsC05x", "{0}", "RetsDay", "AdvsExact", "DecsSleep", "RasNone", EXEC, 1, "ConfigsC05y", True)
cfg("C10", "Classes4", "OutsC10", "{1}", "RetsTwoSmall", "AdvsTwo", "DecsSleep", "RasNone", EXEC, 3, "ConfigsC10", False, gaps="GapsC10")
cfg("C10x", "Classes4", "OutsC10", "{1}", "RetsOne", "AdvsExact", "DecsSleep", "RasNone", EXEC, 3, "ConfigsC10x", True, gaps="GapsC10")
# back-offs as long as the budget window, sleepers that return without time passing
cfg("C10y", "Classes4", "OutsC10", "{1}", "RetsWin", "AdvsTwo", "DecsSleep", "RasNone", EXEC, 2, "ConfigsC10y", True, gaps="GapsC10y")
cfg("C11", "Classes4", "OutsC04", "{0, 2}", "RetsOne", "AdvsExact", "DecsAll", "RasNone", EXEC, 1, "ConfigsC11", False)
cfg("C11x", "Classes4", "OutsC11x", "{2}", "RetsOne", "AdvsExact", "DecsAll", "RasNone", EXEC, 1, "ConfigsC11x", True)
cfg("C12", "Classes4", "OutsC12", "{0, 2}", "RetsTwo", "AdvsExact", "DecsAll", "RasSome", BOTH, 1, "ConfigsC12", False)
cfg("C12x", "Classes4", "OutsC12x", "{2}", "RetsOne", "AdvsExact", "DecsAll", "RasSome", EXEC, 1, "ConfigsC12x", True)
cfg("C13", "Classes4", "OutsC13", "{0}", "RetsOne", "AdvsC13", "DecsAll", "RasNone", BOTH, 1, "ConfigsC13", False, bf="BFaultsAll")
cfg("C13x", "Classes4", "OutsC13", "{0}", "RetsOne", "AdvsC13", "DecsAll", "RasNone", BOTH, 1, "ConfigsC13", True, bf="BFaultsAll")
cfg("C14", "Classes4", "OutsC03", "{0, 1}", "RetsOne", "AdvsExact", "DecsAll", "RasNone", BOTH, 1, "ConfigsC03", False)
cfg("C14x", "Classes4", "OutsC03", "{1}", "RetsOne", "AdvsExact", "DecsAll", "RasNone", BOTH, 1, "ConfigsC14x", True, edurs="SomeDur")
cfg("C15", "Classes4", "OutsC12", "{0, 2}", "RetsTwo", "AdvsExact", "DecsAll", "RasSome", BOTH, 1, "ConfigsC12", False)
cfg("C16y", "Classes4", "OutsC16y", "{0}", "RetsMonths", "AdvsExact", "DecsSleep", "RasNone", BOTH, 1, "ConfigsC16y", True)
cfg("C15y", "Classes4", "OutsC15y", "{1}", "RetsOne", "AdvsExact", "DecsSleep", "RasNone", EXEC, 1, "ConfigsC15y", True)
cfg("C15x", "Classes4", "OutsC12x", "{2}", "RetsOne", "AdvsExact", "DecsAll", "RasSome", BOTH, 1, "ConfigsC15x", True)
cfg("C16", "Classes4", "OutsC16", "{0}", "RetsTwo", "AdvsExact", "DecsAll", "RasNone", BOTH, 1, "ConfigsC16", False)
cfg("C16x", "Classes4", "OutsC16", "{0}", "RetsOne", "AdvsExact", "DecsAll", "RasNone", BOTH, 1, "ConfigsC16", True)

# ---- thorough tier: larger constants -----------------------------------------------------------
cfg("C01_thorough", "ClassesCaps", "OutsCaps", "{0}", "RetsOne", "AdvsExact", "DecsSleep", "RasNone", BOTH, 2, "ConfigsC01T", False)
cfg("C01x_thorough", "ClassesCaps", "OutsCaps", "{0}", "RetsOne", "AdvsExact", "DecsSleep", "RasNone", BOTH, 1, "ConfigsC01", True)
cfg("C02_thorough", "Classes4", "OutsC02", "{0, 1, 2, 3, 5}", "RetsC02", "AdvsAll", "DecsSleep", "RasNone", BOTH, 1, "ConfigsC02T", False)
cfg("C02x_thorough", "Classes4", "OutsC02", "{0, 1, 2, 5}", "RetsC02", "AdvsAll", "DecsSleep", "RasNone", EXEC, 1, "ConfigsC02x", True)
cfg("C03_thorough", "Classes4", "OutsC03", "{0, 1}", "RetsTwo", "AdvsExact", "DecsAll", "RasNone", BOTH, 1, "ConfigsC03T", False)
cfg("C03x_thorough", "Classes4", "OutsC03", "{1}", "RetsOne", "AdvsExact", "DecsAll", "RasNone", BOTH, 1, "ConfigsC03", True)
cfg("C04_thorough", "Classes4", "OutsC04", "{0, 2}", "RetsOne", "AdvsExact", "DecsAll", "RasNone", CALL, 2, "ConfigsC04T", False)
cfg("C04x_thorough", "Classes4", "OutsC04", "{0, 2}", "RetsOne", "AdvsExact", "DecsAll", "RasNone", CALL, 1, "ConfigsC04T", True)
cfg("C05_thorough", "Classes4", "OutsC05", "{0}", "RetsAll", "AdvsExact", "DecsAll", "RasSome", BOTH, 1, "ConfigsC05T", False)
cfg("C05x_thorough", "Classes4", "OutsC05x", "{0}", "RetsAll", "AdvsExact", "DecsAll", "RasSome", BOTH, 1, "ConfigsC05x", True)
cfg("C10_thorough", "Classes4", "OutsC10", "{1}", "RetsTwoSmall", "AdvsTwo", "DecsSleep", "RasNone", EXEC, 3, "ConfigsC10T", False, gaps="GapsC10")
cfg("C10x_thorough", "Classes4", "OutsC10", "{1}", "RetsOne", "AdvsExact", "DecsSleep", "RasNone", EXEC, 3, "ConfigsC10", True, gaps="GapsC10")
cfg("C11_thorough", "Classes4", "OutsC04", "{0, 2}", "RetsOne", "AdvsExact", "DecsAll", "RasNone", EXEC, 2, "ConfigsC11T", False)
cfg("C11x_thorough", "Classes4", "OutsC04", "{0, 2}", "RetsOne", "AdvsExact", "DecsAll", "RasNone", EXEC, 1, "ConfigsC11", True)
cfg("C12x_thorough", "Classes4", "OutsC12", "{2}", "RetsOne", "AdvsExact", "DecsAll", "RasSome", EXEC, 1, "ConfigsC12", True)
cfg("C13_thorough", "Classes4", "OutsC13", "{0, 1}", "RetsTwo", "AdvsC13", "DecsAll", "RasNone", BOTH, 2, "ConfigsC13T", False, bf="BFaultsAll")
cfg("C13x_thorough", "Classes4", "OutsC13", "{0}", "RetsOne", "AdvsC13", "DecsAll", "RasNone", BOTH, 1, "ConfigsC13T", True, bf="BFaultsAll")
cfg("C14x_thorough", "Classes4", "OutsC03", "{1}", "RetsOne", "AdvsExact", "DecsAll", "RasNone", BOTH, 1, "ConfigsC14T", True)
cfg("C15x_thorough", "Classes4", "OutsC12", "{2}", "RetsOne", "AdvsExact", "DecsAll", "RasSome", BOTH, 1, "ConfigsC12", True)
cfg("C16_thorough", "Classes4", "OutsC16", "{0, 1}", "RetsTwo", "AdvsExact", "DecsAll", "RasNone", BOTH, 1, "ConfigsC16T", False)
cfg("C16x_thorough", "Classes4", "OutsC16", "{0}", "RetsTwo", "AdvsExact", "DecsAll", "RasNone", BOTH, 1, "ConfigsC16T", True)
# full product of all dimensions: explored by random simulation (tlc -simulate), thorough tier
cfg("FULL", "Classes4", "OutsFull", "{0, 1, 3}", "RetsAll", "AdvsFull", "DecsAll", "RasSome", BOTH, 2, "ConfigsFull", True,
    bf="BFaultsAll", gaps="GapsC10", cdurs="SomeDur", edurs="SomeDur")
print("cfgs written")
