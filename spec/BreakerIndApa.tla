---------------------------- MODULE BreakerIndApa ----------------------------
(* Apalache entry point of BreakerInd: the symbolic "any state satisfying IndInv" *)
EXTENDS BreakerInd, Apalache

IndInit ==
    /\ st \in {"closed", "open", "half"} /\ openedAt \in Int /\ probe \in BOOLEAN
    /\ fails = Gen(4) /\ cf = Gen(4)
    /\ phase \in {"closed", "open", "half"} /\ t0 \in Int /\ out \in BOOLEAN
    /\ logAll = Gen(4) /\ logK = Gen(4) /\ last \in Int /\ agree \in BOOLEAN
    /\ did = [op |-> "init", k |-> "-", allowed |-> TRUE, ev |-> "-"]
    /\ IndInv
=============================================================================
