------------------------------ MODULE BudgetInd ------------------------------
(***************************************************************************)
(* C10 at design level, symbolically (Apalache): the rolling-window budget *)
(* of Budget.tla (M: deque pruned with `head <= now - W`, capacity test on *)
(* the deque's length) against the property-level grant log (P), for       *)
(* ARBITRARY integer max_retries, window, times and costs 1..3 - not the   *)
(* handful of constants of BudgetMC.cfg.                                   *)
(*                                                                         *)
(* IndInv is inductive:                                                    *)
(*     apalache-mc check --cinit=ConstInit --init=IndInit --inv=IndInv     *)
(*                       --length=1 BudgetIndApa.tla     (IndInv preserved)*)
(*     apalache-mc check --cinit=ConstInit --init=Init --inv=IndInv        *)
(*                       --length=0 BudgetIndApa.tla     (holds initially) *)
(* with sequences of up to N = 5 logged grants in the pre-state (Gen(5)).  *)
(* IndInv contains `agree`: every consume()/remaining() of M returned what *)
(* P expects (no over-grant, no refusal although capacity), and            *)
(* WindowBound: no window of length W ending at a grant holds more than    *)
(* max tokens.                                                             *)
(* The recursive PopOld of Budget.tla is written here as SelectSeq.  TLC    *)
(* binds this module to Budget.tla: BudgetIndX checks that every step here *)
(* is Budget!UApply with the same result (and BudgetMC: PopOldIsSelect).   *)
(***************************************************************************)
EXTENDS Integers, Sequences, FiniteSets

CONSTANTS
    \* @type: Int;
    Max,
    \* @type: Int;
    W

VARIABLES
    \* @type: Seq(Int);
    q,
    \* @type: Seq(Int);
    g,
    \* @type: Int;
    last,
    \* @type: Bool;
    agree,
    \* the operation just performed and what M answered (bound to Budget!UApply by BudgetIndX)
    \* @type: { op: Str, cost: Int, ret: Int };
    did

ConstInit == Max \in Nat /\ W \in Nat /\ W >= 1

\* @type: (Seq(Int), Int) => Seq(Int);
Prune(s, cutoff) == LET \* @type: Int => Bool;
                        Keep(e) == e > cutoff IN SelectSeq(s, Keep)

\* @type: (Int, Int) => Seq(Int);
Rep(t, cost) == IF cost = 1 THEN <<t>> ELSE IF cost = 2 THEN <<t, t>> ELSE <<t, t, t>>

\* @type: (Seq(Int), Int) => Int;
InWindow(s, t) == Cardinality({i \in DOMAIN s : t - s[i] < W /\ s[i] <= t})

\* @type: Seq(Int) => Bool;
WindowBound(s) ==
    \A i \in DOMAIN s : Cardinality({j \in DOMAIN s : s[i] - s[j] < W /\ s[j] <= s[i]}) <= Max

\* @type: Seq(Int) => Bool;
Sorted(s) == \A i, j \in DOMAIN s : i < j => s[i] <= s[j]

Consume(t, cost) ==
    LET q1  == Prune(q, t - W)
        ret == IF Len(q1) + cost > Max THEN 0 ELSE 1
        exp == IF InWindow(g, t) + cost <= Max THEN 1 ELSE 0
    IN  /\ q' = IF ret = 1 THEN q1 \o Rep(t, cost) ELSE q1
        /\ g' = IF ret = 1 THEN g \o Rep(t, cost) ELSE g
        /\ agree' = (agree /\ ret = exp)
        /\ did' = [op |-> "consume", cost |-> cost, ret |-> ret]
        /\ last' = t

Remaining(t) ==
    LET q1  == Prune(q, t - W)
        n   == Max - Len(q1)
        ret == IF n > 0 THEN n ELSE 0
        m   == Max - InWindow(g, t)
        exp == IF m > 0 THEN m ELSE 0
    IN  /\ q' = q1 /\ g' = g /\ agree' = (agree /\ ret = exp) /\ last' = t
        /\ did' = [op |-> "remaining", cost |-> 0, ret |-> ret]

\* all integers for the symbolic proof; TLC's cross-check (BudgetIndX) overrides it by a finite set
Times == Int
Next == \E t \in Times : t >= last /\ (\/ \E cost \in 1..3 : Consume(t, cost)
                                      \/ Remaining(t))

Init == q = <<>> /\ g = <<>> /\ last = 0 /\ agree = TRUE /\ did = [op |-> "init", cost |-> 0, ret |-> 0]

IndInv ==
    /\ agree
    /\ Sorted(g)
    /\ \A i \in DOMAIN g : g[i] <= last
    /\ q = Prune(g, last - W)
    /\ Len(q) <= Max
    /\ WindowBound(g)
=============================================================================
