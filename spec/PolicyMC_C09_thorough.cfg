SPECIFICATION Spec
CONSTANTS
  Classes <- Classes4
  Outs <- OutsPolicy
  Durs = {0, 1}
  CDurs <- ZeroDur
  EDurs <- ZeroDur
  Rets <- RetsOne
  Advs <- AdvsExact
  Decs <- DecsAll
  BFaults <- BFaultsNone
  Ras <- RasNone
  Modes = {"call", "exec"}
  NCalls = 3
  Gaps = {0, 1, 2}
  PConfigs <- PConfigsA
  RecordHist = FALSE
INVARIANT NoViolation
INVARIANT BreakerTypeOK
INVARIANT NoPhantomProbe
INVARIANT RefInSync

CHECK_DEADLOCK FALSE
