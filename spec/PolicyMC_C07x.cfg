SPECIFICATION Spec
CONSTANTS
  Classes <- Classes4
  Outs <- OutsC07x
  Durs = {0}
  CDurs <- ZeroDur
  EDurs <- ZeroDur
  Rets <- RetsOne
  Advs <- AdvsExact
  Decs <- DecsAll
  BFaults <- BFaultsNone
  Ras <- RasNone
  Modes = {"call", "exec"}
  NCalls = 3
  Gaps = {0, 2, 3}
  PConfigs <- PConfigsC07x
  RecordHist = TRUE
INVARIANT NoViolation
INVARIANT BreakerTypeOK
INVARIANT NoPhantomProbe
INVARIANT RefInSync
INVARIANT ExportBehaviours
CHECK_DEADLOCK FALSE
