SPECIFICATION Spec
CONSTANTS
  Classes <- Classes4
  Outs <- OutsC12
  Durs = {0, 2}
  CDurs <- ZeroDur
  EDurs <- ZeroDur
  Rets <- RetsTwo
  Advs <- AdvsExact
  Decs <- DecsAll
  BFaults <- BFaultsNone
  Ras <- RasSome
  Modes = {"call", "exec"}
  RunGaps <- GapsNone
  NRuns = 1
  Configs <- ConfigsC12
  RecordHist = FALSE
INVARIANT NoViolation
INVARIANT AttemptsBounded
INVARIANT InvokeWithinDeadline
INVARIANT SleepWithinRemaining
INVARIANT DeliveriesRelated
CHECK_DEADLOCK FALSE
