SPECIFICATION Spec
CONSTANTS
  MaxNow = 6
  MaxDepth = 6
CONSTRAINT DepthBound
ACTION_CONSTRAINT ExportEdge
INVARIANT MultiplierInRange
INVARIANT StatelessChecked
INVARIANT ExportStateless
CHECK_DEADLOCK FALSE
