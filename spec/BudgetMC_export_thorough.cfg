SPECIFICATION Spec
CONSTANTS
  MaxNow = 9
  MaxDepth = 8
  Export = TRUE
  Profile = "quick"
CONSTRAINT DepthBound
ACTION_CONSTRAINT ExportEdge
INVARIANT NoViolation
INVARIANT Bound
INVARIANT DequeIsWindow

CHECK_DEADLOCK FALSE
