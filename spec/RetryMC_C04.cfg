SPECIFICATION Spec
CONSTANTS
  Classes <- Classes4
  Outs <- OutsC04
  Durs = {0, 2}
  CDurs <- ZeroDur
  EDurs <- ZeroDur
  Rets <- RetsOne
  Advs <- AdvsExact
  Decs <- DecsAll
  BFaults <- BFaultsNone
  Ras <- RasNone
  Modes = {"call"}
  RunGaps <- GapsNone
  NRuns = 1
  Configs <- ConfigsC04
  RecordHist = FALSE
INVARIANT NoViolation
INVARIANT AttemptsBounded
INVARIANT InvokeWithinDeadline
INVARIANT SleepWithinRemaining
INVARIANT DeliveriesRelated
CHECK_DEADLOCK FALSE
