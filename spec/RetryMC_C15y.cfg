SPECIFICATION Spec
CONSTANTS
  Classes <- Classes4
  Outs <- OutsC15y
  Durs = {1}
  CDurs <- ZeroDur
  EDurs <- ZeroDur
  Rets <- RetsOne
  Advs <- AdvsExact
  Decs <- DecsSleep
  BFaults <- BFaultsNone
  Ras <- RasNone
  Modes = {"exec"}
  RunGaps <- GapsNone
  NRuns = 1
  Configs <- ConfigsC15y
  RecordHist = TRUE
INVARIANT NoViolation
INVARIANT ExportBehaviours
CHECK_DEADLOCK FALSE
