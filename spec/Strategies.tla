----------------------------- MODULE Strategies -----------------------------
(***************************************************************************)
(* C18: built-in backoff strategies stay inside their envelopes.           *)
(*                                                                         *)
(* TLA+ has no floats: the property is decided on a grid chosen here, in   *)
(* exact rational arithmetic.  One tick = 2^-6 s; base, max, prev are      *)
(* whole ticks; a rational is <<num, den>>; the random draw is u/2 with    *)
(* u in 0..2 (both ends and the middle of the uniform interval).           *)
(*                                                                         *)
(*  Part 1 (stateless grid): for every grid point the implementation-      *)
(*   shaped value and the property-level envelope are computed and the     *)
(*   value is checked to lie inside; each point is exported as a test      *)
(*   vector for the real strategies (random.uniform pinned to the draw).   *)
(*   Powers saturate: min(max, base * g^a) is computed by repeated         *)
(*   multiplication that stops as soon as max is reached, so attempt       *)
(*   numbers like 1024, 1751 or 10^6 cost nothing - and never overflow.    *)
(*  Part 2 (AdaptiveStrategy): a state machine over the sliding window of  *)
(*   (time, success) observations; TLC explores histories of               *)
(*   record_success / record_failure / call / clock ticks, checks that the *)
(*   multiplier stays within [min_multiplier, max_multiplier], and exports *)
(*   the transition graph for replay on the real object.                   *)
(***************************************************************************)
EXTENDS Integers, Sequences, FiniteSets, TLC, Json, SequencesExt

None == -1
\* Min, Max come from the CommunityModules (Functions via SequencesExt)

\* rationals
Leq(x, y) == x[1] * y[2] <= y[1] * x[2]
Q(n, d) == <<n, d>>

(***************************************************************************)
(* Part 1                                                                  *)
(***************************************************************************)
Bases == {0, 16, 64, 128}
MaxFor(b) == {b, 256, 1920} \ {m \in {b, 256, 1920} : m < b}
Attempts == {1, 2, 3, 5, 8, 16, 33, 64, 1023, 1024, 1025, 1751, 5000, 1000000}
Prevs == {None, 0, 16, 448, 64000000}
Draws == {0, 1, 2}

\* min(max, base * (gn/gd)^a) as a rational, saturating
RECURSIVE SatCap(_, _, _, _, _)
SatCap(b, mx, gn, gd, a) ==
    IF b[1] >= mx * b[2] THEN Q(mx, 1)
    ELSE IF a = 0 \/ b[1] = 0 THEN b
    ELSE SatCap(Q(b[1] * gn, b[2] * gd), mx, gn, gd, a - 1)

\* equal_jitter: cap/2 + uniform(0, cap/2); token_backoff: uniform(cap/2, cap)
\* value = cap/2 + (u/2)(cap/2) = cap (2 + u) / 4
JitterVal(cap, u) == Q(cap[1] * (2 + u), cap[2] * 4)
JitterLo(cap) == Q(cap[1], cap[2] * 2)
JitterHi(cap) == cap

\* decorrelated_jitter: min(max, uniform(base, (prev or base) * 3))
DecorVal(b, mx, prev, u) ==
    LET p  == IF prev = None \/ prev = 0 THEN b ELSE prev
        hi == p * 3
        v2 == 2 * b + (hi - b) * u                       \* doubled
    IN  IF v2 >= 2 * mx THEN Q(mx, 1) ELSE Q(v2, 2)

Vec(s, b, mx, a, prev, u, val, lo, hi) ==
    [s |-> s, base |-> b, max |-> mx, attempt |-> a, prev |-> prev, u |-> u,
     val |-> val, lo |-> lo, hi |-> hi]

JitterVectors ==
    { Vec(s, b, mx, a, None, u,
          JitterVal(SatCap(Q(b, 1), mx, IF s = "equal_jitter" THEN 2 ELSE 3,
                           IF s = "equal_jitter" THEN 1 ELSE 2, a), u),
          JitterLo(SatCap(Q(b, 1), mx, IF s = "equal_jitter" THEN 2 ELSE 3,
                          IF s = "equal_jitter" THEN 1 ELSE 2, a)),
          JitterHi(SatCap(Q(b, 1), mx, IF s = "equal_jitter" THEN 2 ELSE 3,
                          IF s = "equal_jitter" THEN 1 ELSE 2, a))) :
        s \in {"equal_jitter", "token_backoff"},
        b \in Bases, mx \in {m \in {16, 256, 1920} : TRUE}, a \in Attempts, u \in Draws }
DecorVectors ==
    { Vec("decorrelated_jitter", b, mx, a, p, u, DecorVal(b, mx, p, u), Q(0, 1), Q(mx, 1)) :
        b \in Bases, mx \in {16, 256, 1920}, a \in {1, 3, 1024}, p \in Prevs, u \in Draws }
Vectors == { v \in JitterVectors \cup DecorVectors : v.max >= v.base }

InEnvelope(v) == Leq(v.lo, v.val) /\ Leq(v.val, v.hi) /\ v.val[1] >= 0
StatelessOK == \A v \in Vectors : InEnvelope(v)

\* retry_after_or: finite, non-negative, <= remaining when given (hint part in RetryAfter.tla)
FallbackKinds == {"zero", "val", "big", "nan", "pinf", "ninf", "neg"}
HintKinds == {"none", "val", "nan", "pinf", "neg"}
RaoVectors == { [fb |-> f, hint |-> h, rem |-> r] : f \in FallbackKinds, h \in HintKinds, r \in {None, 0, 5} }

(***************************************************************************)
(* Part 2: AdaptiveStrategy                                                *)
(* configuration: W (window, ticks), ts = <<n, d>> target_success,         *)
(* mn, mx integer multipliers.  State: ev = sequence of <<t, ok>>.         *)
(***************************************************************************)
CONSTANTS MaxNow, MaxDepth

AConfigs == { [W |-> w, ts |-> ts, mn |-> m[1], mx |-> m[2]] :
                w \in {2, 3}, ts \in {Q(1, 2), Q(9, 10), Q(1, 1)},
                m \in {<<1, 1>>, <<1, 5>>, <<2, 3>>} }
ACfgSeq == SetToSeq(AConfigs)

RECURSIVE PopOldA(_, _)
PopOldA(q, cutoff) == IF q # <<>> /\ Head(q)[1] <= cutoff THEN PopOldA(Tail(q), cutoff) ELSE q

\* _multiplier as a rational
Multiplier(c, q) ==
    LET total == Len(q)
        f     == Cardinality({i \in 1..total : ~q[i][2]})
        tsn   == c.ts[1]
        tsd   == c.ts[2]
        \* failure_rate <= target_failure  <=>  f * tsd <= total * (tsd - tsn)
    IN  IF total = 0 THEN Q(c.mn, 1)
        ELSE IF f * tsd <= total * (tsd - tsn) THEN Q(c.mn, 1)
        ELSE LET fn == f * tsd - total * (tsd - tsn)          \* frac = fn / fd
                 fd == total * tsn
                 m  == Q(c.mn * fd + fn * (c.mx - c.mn), fd)
             IN  IF Leq(Q(c.mx, 1), m) THEN Q(c.mx, 1)
                 ELSE IF Leq(m, Q(c.mn, 1)) THEN Q(c.mn, 1) ELSE m

VARIABLES cid, q, now, last
avars == <<cid, q, now, last>>
acfg == ACfgSeq[cid]

AInit == /\ cid \in 1..Len(ACfgSeq) /\ q = <<>> /\ now = 0
         /\ last = [op |-> "init", t |-> 0, mult |-> Q(0, 1)]
ARecord(ok) == /\ q' = PopOldA(Append(q, <<now, ok>>), now - acfg.W)
               /\ last' = [op |-> IF ok THEN "success" ELSE "failure", t |-> now, mult |-> Q(0, 1)]
               /\ UNCHANGED <<cid, now>>
ACall == LET q1 == PopOldA(q, now - acfg.W) IN
         /\ q' = q1
         /\ last' = [op |-> "call", t |-> now, mult |-> Multiplier(acfg, q1)]
         /\ UNCHANGED <<cid, now>>
ATick == \E d \in 1..(acfg.W + 1) :
            /\ now + d <= MaxNow /\ now' = now + d
            /\ last' = [last EXCEPT !.op = "tick", !.t = now + d]
            /\ UNCHANGED <<cid, q>>
ANext == ARecord(TRUE) \/ ARecord(FALSE) \/ ACall \/ ATick
Spec == AInit /\ [][ANext]_avars
DepthBound == TLCGet("level") <= MaxDepth

\* the property: the factor applied to the fallback stays within [min, max] (>= 1)
MultiplierInRange ==
    (last.op = "call") =>
        /\ Leq(Q(acfg.mn, 1), last.mult) /\ Leq(last.mult, Q(acfg.mx, 1))
        /\ Leq(Q(1, 1), last.mult)
StatelessChecked == StatelessOK

ExportStateless ==
    (TLCGet("level") = 1 /\ cid = 1) =>
        /\ PrintT(<<"ACONFIGS", ToJson(ACfgSeq)>>)
        /\ \A v \in Vectors : PrintT(<<"VEC", ToJson(v)>>)
        /\ \A v \in RaoVectors : PrintT(<<"RAO", ToJson(v)>>)
AStateRec(cc, qq, nn) == [c |-> cc, q |-> qq, now |-> nn]
ExportEdge ==
    PrintT(<<"EDGE", ToJson([pre |-> AStateRec(cid, q, now), lastop |-> last.op, ev |-> last',
                             post |-> AStateRec(cid', q', now')])>>)
=============================================================================
