SPECIFICATION Spec
CONSTANTS
  Classes <- Classes4
  Outs <- OutsC04
  Durs = {0, 2}
  Rets <- RetsOne
  Advs <- AdvsExact
  Decs <- DecsAll
  BFaults <- BFaultsNone
  Ras <- RasNone
  Modes = {"exec"}
  NRuns = 1
  Configs <- ConfigsC11
  RecordHist = FALSE
INVARIANT NoViolation
INVARIANT AttemptsBounded
INVARIANT InvokeWithinDeadline
INVARIANT SleepWithinRemaining
CHECK_DEADLOCK FALSE
