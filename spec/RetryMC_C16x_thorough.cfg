SPECIFICATION Spec
CONSTANTS
  Classes <- Classes4
  Outs <- OutsC16
  Durs = {0}
  CDurs <- ZeroDur
  EDurs <- ZeroDur
  Rets <- RetsTwo
  Advs <- AdvsExact
  Decs <- DecsAll
  BFaults <- BFaultsNone
  Ras <- RasNone
  Modes = {"call", "exec"}
  RunGaps <- GapsNone
  NRuns = 1
  Configs <- ConfigsC16T
  RecordHist = TRUE
INVARIANT NoViolation
INVARIANT ExportBehaviours
CHECK_DEADLOCK FALSE
