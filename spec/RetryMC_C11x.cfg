SPECIFICATION Spec
CONSTANTS
  Classes <- Classes4
  Outs <- OutsC11x
  Durs = {2}
  CDurs <- ZeroDur
  EDurs <- ZeroDur
  Rets <- RetsOne
  Advs <- AdvsExact
  Decs <- DecsAll
  BFaults <- BFaultsNone
  Ras <- RasNone
  Modes = {"exec"}
  RunGaps <- GapsNone
  NRuns = 1
  Configs <- ConfigsC11x
  RecordHist = TRUE
INVARIANT NoViolation
INVARIANT ExportBehaviours
CHECK_DEADLOCK FALSE
