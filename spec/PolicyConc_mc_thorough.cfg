SPECIFICATION Spec
CONSTANTS
  NCalls = 4
  MaxNow = 8
  RecordHist = FALSE
  Classes = {"TRANSIENT", "UNKNOWN"}
  CConfigs <- ConfigsConc
  TickSet = {1, 2, 3}
  OutKinds = {"ok", "exc", "excU", "abort", "cancel"}
INVARIANT OnlyKnownViolations
INVARIANT TypeOK

CHECK_DEADLOCK FALSE
