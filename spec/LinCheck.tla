------------------------------ MODULE LinCheck ------------------------------
(***************************************************************************)
(* C17: linearizability of concurrent histories of CircuitBreaker / Budget *)
(* recorded from the real code under a controlled thread scheduler.        *)
(*                                                                         *)
(* A history: comp ("breaker" | "budget"), cfg, setup (operations applied  *)
(* sequentially before the threads start), threads (per thread the         *)
(* operations it performed with the results it observed, in program        *)
(* order), final (observation after all threads have finished), deadlock.  *)
(* The history is accepted iff some interleaving of the threads' programs, *)
(* executed atomically by the sequential specification (Breaker!BApply /   *)
(* Budget!UApply), yields exactly the observed results and final state.    *)
(***************************************************************************)
EXTENDS Integers, Sequences, FiniteSets, TLC, Json, IOUtils, SequencesExt

CONSTANT NTraces
Traces == JsonDeserialize(IOEnv.TRACE_FILE)

AllClasses == {"AUTH", "PERMISSION", "PERMANENT", "CONCURRENCY", "RATE_LIMIT", "SERVER_ERROR",
               "TRANSIENT", "UNKNOWN"}
B == INSTANCE Breaker WITH ClassSet <- AllClasses
U == INSTANCE Budget

BCfg(j) == [thr |-> j.thr, W |-> j.W, R |-> j.R, trip |-> ToSet(j.trip), cthr |-> j.cthr]

\* ---- breaker -------------------------------------------------------------
RECURSIVE BSetup(_, _, _)
BSetup(c, b, ops) ==
    IF ops = <<>> THEN b
    ELSE BSetup(c, B!BApply(c, b, Head(ops).op, Head(ops).k, Head(ops).t).b, Tail(ops))

\* the sequential epilogue (run after all threads have finished) exposes hidden state
RECURSIVE BPost(_, _, _, _)
BPost(c, b, ops, final) ==
    IF ops = <<>> THEN b.st = final.state
    ELSE LET e == Head(ops) res == B!BApply(c, b, e.op, e.k, e.t)
         IN  res.allowed = e.allowed /\ res.ev = e.ev /\ BPost(c, res.b, Tail(ops), final)

RECURSIVE BSearch(_, _, _, _, _)
BSearch(c, threads, pos, b, final) ==
    IF \A t \in DOMAIN threads : pos[t] > Len(threads[t])
    THEN BPost(c, b, final.post, final)
    ELSE \E t \in DOMAIN threads :
            /\ pos[t] <= Len(threads[t])
            /\ LET e   == threads[t][pos[t]]
                   res == B!BApply(c, b, e.op, e.k, e.t)
               IN  /\ res.allowed = e.allowed
                   /\ res.ev = e.ev
                   /\ BSearch(c, threads, [pos EXCEPT ![t] = @ + 1], res.b, final)

BreakerLinearizable(h) ==
    LET c == BCfg(h.cfg) IN
    BSearch(c, h.threads, [t \in DOMAIN h.threads |-> 1], BSetup(c, B!BInit, h.setup), h.final)

\* ---- budget --------------------------------------------------------------
RECURSIVE USetup(_, _, _)
USetup(c, q, ops) ==
    IF ops = <<>> THEN q
    ELSE USetup(c, U!UApply(c, q, Head(ops).op, Head(ops).cost, Head(ops).t).q, Tail(ops))

RECURSIVE UPost(_, _, _, _)
UPost(c, q, ops, final) ==
    IF ops = <<>> THEN U!URemaining(c, q, final.t).ret = final.remaining
    ELSE LET e == Head(ops) res == U!UApply(c, q, e.op, e.cost, e.t)
         IN  res.ret = e.ret /\ UPost(c, res.q, Tail(ops), final)

RECURSIVE USearch(_, _, _, _, _)
USearch(c, threads, pos, q, final) ==
    IF \A t \in DOMAIN threads : pos[t] > Len(threads[t])
    THEN UPost(c, q, final.post, final)
    ELSE \E t \in DOMAIN threads :
            /\ pos[t] <= Len(threads[t])
            /\ LET e   == threads[t][pos[t]]
                   res == U!UApply(c, q, e.op, e.cost, e.t)
               IN  /\ res.ret = e.ret
                   /\ USearch(c, threads, [pos EXCEPT ![t] = @ + 1], res.q, final)

BudgetLinearizable(h) ==
    USearch(h.cfg, h.threads, [t \in DOMAIN h.threads |-> 1], USetup(h.cfg, U!UInit, h.setup), h.final)

Judge(h) ==
    (IF h.deadlock THEN {"C17:deadlock"} ELSE {})
    \cup (IF ~h.deadlock /\ ~(IF h.comp = "breaker" THEN BreakerLinearizable(h)
                                                   ELSE BudgetLinearizable(h))
          THEN {"C17:not-equal-to-any-sequential-order"} ELSE {})

VARIABLES tid, l
vars == <<tid, l>>
Init == tid \in 1..NTraces /\ l = 1
Step == l = 1 /\ l' = 2 /\ UNCHANGED tid
Spec == Init /\ [][Step]_vars

Report ==
    (l = 2) => PrintT(<<"VERDICT", ToJson([tid |-> tid, viol |-> Judge(Traces[tid]), conf |-> 0])>>)
=============================================================================
