SPECIFICATION Spec
CONSTANTS
  Classes <- Classes4
  Outs <- OutsC13
  Durs = {0, 1}
  CDurs <- ZeroDur
  EDurs <- ZeroDur
  Rets <- RetsTwo
  Advs <- AdvsC13
  Decs <- DecsAll
  BFaults <- BFaultsAll
  Ras <- RasNone
  Modes = {"call", "exec"}
  RunGaps <- GapsNone
  NRuns = 2
  Configs <- ConfigsC13T
  RecordHist = FALSE
INVARIANT NoViolation
INVARIANT AttemptsBounded
INVARIANT InvokeWithinDeadline
INVARIANT SleepWithinRemaining
INVARIANT DeliveriesRelated
CHECK_DEADLOCK FALSE
