------------------------------ MODULE Breaker ------------------------------
(***************************************************************************)
(* redress.circuit.CircuitBreaker                                          *)
(*                                                                         *)
(* Two layers, both written as pure operators over records so that the     *)
(* model-checking spec (BreakerMC), the trace specs (BreakerTrace,         *)
(* PolicyTrace) and the policy-level specs (PolicyCall, PolicyConc) share  *)
(* one definition.                                                         *)
(*                                                                         *)
(*  M  B..  implementation-shaped: one operator per public method, one     *)
(*          clause per branch of circuit.py, state = the private fields    *)
(*          (_state, _opened_at, _probe_in_flight, _failures deque,        *)
(*          _class_failures buckets created lazily and pruned only when    *)
(*          their class is noted, `<=` pruning by popleft).                *)
(*  P  R..  property-level reference for C06 / C07: phase, instant of the  *)
(*          last opening, probe outstanding, and the *unpruned* log of     *)
(*          failures recorded since the last transition.  It knows nothing *)
(*          about deques; it states what the properties say.               *)
(*                                                                         *)
(* A configuration is a record                                             *)
(*   [thr, W, R : Nat, trip : SUBSET ClassSet, cthr : [ClassSet -> Nat]]   *)
(* cthr[k] = 0 means "no class threshold for k".  Times are integer ticks. *)
(***************************************************************************)
EXTENDS Integers, Sequences, FiniteSets

CONSTANT ClassSet

NoTime == -1

(***************************************************************************)
(* M: implementation-shaped breaker                                        *)
(***************************************************************************)
\* __init__: trip_on.update(class_thresholds.keys())
Counted(c) == c.trip \cup {k \in ClassSet : c.cthr[k] > 0}

BInit == [st       |-> "closed",
          openedAt |-> NoTime,
          probe    |-> FALSE,
          fails    |-> <<>>,
          cfails   |-> [k \in ClassSet |-> <<>>]]

\* _prune: while bucket and bucket[0] <= cutoff: bucket.popleft()
RECURSIVE PopOld(_, _)
PopOld(q, cutoff) ==
    IF q # <<>> /\ Head(q) <= cutoff THEN PopOld(Tail(q), cutoff) ELSE q

\* _clear_failures
Cleared(b) == [b EXCEPT !.fails = <<>>, !.cfails = [k \in ClassSet |-> <<>>]]

Res(b, allowed, ev) == [b |-> b, allowed |-> allowed, ev |-> ev]

\* allow()
BAllow(c, b, t) ==
    IF b.st = "open" THEN
        IF t - b.openedAt >= c.R
        THEN Res([b EXCEPT !.st = "half", !.probe = TRUE], TRUE, "circuit_half_open")
        ELSE Res(b, FALSE, "circuit_rejected")
    ELSE IF b.st = "half" THEN
        IF b.probe
        THEN Res(b, FALSE, "circuit_rejected")
        ELSE Res([b EXCEPT !.probe = TRUE], TRUE, "-")
    ELSE Res(b, TRUE, "-")

\* record_success()
BRecSuccess(c, b) ==
    IF b.st = "half"
    THEN Res(Cleared([b EXCEPT !.st = "closed", !.openedAt = NoTime, !.probe = FALSE]),
             TRUE, "circuit_closed")
    ELSE Res(b, TRUE, "-")

\* _note_failure + the tail of record_failure
BNote(c, b, k, t) ==
    LET fails1  == Append(PopOld(b.fails, t - c.W), t)
        bucket  == Append(PopOld(b.cfails[k], t - c.W), t)
        hasThr  == c.cthr[k] > 0
        cfails1 == IF hasThr THEN [b.cfails EXCEPT ![k] = bucket] ELSE b.cfails
        open    == IF hasThr /\ Len(bucket) >= c.cthr[k]
                   THEN TRUE
                   ELSE Len(fails1) >= c.thr
    IN  IF open
        THEN Res(Cleared([b EXCEPT !.st = "open", !.openedAt = t]), TRUE, "circuit_opened")
        ELSE Res([b EXCEPT !.fails = fails1, !.cfails = cfails1], TRUE, "-")

\* record_failure(klass)
BRecFailure(c, b, k, t) ==
    IF b.st = "half"
    THEN Res(Cleared([b EXCEPT !.st = "open", !.openedAt = t, !.probe = FALSE]),
             TRUE, "circuit_opened")
    ELSE IF b.st = "open" THEN Res(b, TRUE, "-")
    ELSE IF k \notin Counted(c) THEN Res(b, TRUE, "-")
    ELSE BNote(c, b, k, t)

\* record_cancel()
BRecCancel(c, b) ==
    IF b.st = "half" THEN Res([b EXCEPT !.probe = FALSE], TRUE, "-") ELSE Res(b, TRUE, "-")

BApply(c, b, op, k, t) ==
    CASE op = "allow"  -> BAllow(c, b, t)
      [] op = "ok"     -> BRecSuccess(c, b)
      [] op = "fail"   -> BRecFailure(c, b, k, t)
      [] op = "cancel" -> BRecCancel(c, b)

\* invariants of M used by the checks (and by the "not flagged" argument for
\* removing _clear_failures from the half-open -> closed transition)
BTypeOK(c, b) ==
    /\ b.st \in {"closed", "open", "half"}
    /\ (b.st = "open") => b.openedAt # NoTime
    /\ b.probe => b.st = "half"
    /\ (b.st # "closed") => (b.fails = <<>> /\ \A k \in ClassSet : b.cfails[k] = <<>>)

(***************************************************************************)
(* P: property-level reference (C06, C07)                                  *)
(*                                                                         *)
(* r.log   every record_failure(k) made while closed since the last        *)
(*         transition, as [k, t]; never pruned.                            *)
(* r.stale every earlier record_failure that must no longer count (made     *)
(*         before the last transition, or while open / half-open); kept     *)
(*         only to explain a stale-history opening as a C07 violation.      *)
(***************************************************************************)
RInit == [phase |-> "closed", t0 |-> NoTime, out |-> FALSE, log |-> <<>>, stale |-> <<>>,
          closedOnce |-> FALSE]

InWin(c, e, t) == t - e < c.W            \* half-open window (t-W, t]

NAll(c, log, t) ==
    Cardinality({i \in 1..Len(log) : log[i].k \in Counted(c) /\ InWin(c, log[i].t, t)})
NClass(c, log, k, t) ==
    Cardinality({i \in 1..Len(log) : log[i].k = k /\ InWin(c, log[i].t, t)})

\* C06: does record_failure(k) at t open a closed breaker whose log is `log`?
ShouldOpen(c, log, k, t) ==
    /\ k \in Counted(c)
    /\ \/ NAll(c, log, t) + 1 >= c.thr
       \/ c.cthr[k] > 0 /\ NClass(c, log, k, t) + 1 >= c.cthr[k]

Obs(allowed, ev, state) == [allowed |-> allowed, ev |-> ev, state |-> state]

\* expected observation of operation (op, k) at time t in reference state r
RExpect(c, r, op, k, t) ==
    CASE op = "allow" ->
           IF r.phase = "open" THEN
               IF t - r.t0 >= c.R THEN Obs(TRUE, "circuit_half_open", "half")
                                  ELSE Obs(FALSE, "circuit_rejected", "open")
           ELSE IF r.phase = "half" THEN
               IF r.out THEN Obs(FALSE, "circuit_rejected", "half")
                        ELSE Obs(TRUE, "-", "half")
           ELSE Obs(TRUE, "-", "closed")
      [] op = "ok" ->
           IF r.phase = "half" THEN Obs(TRUE, "circuit_closed", "closed")
                               ELSE Obs(TRUE, "-", r.phase)
      [] op = "fail" ->
           IF r.phase = "half" THEN Obs(TRUE, "circuit_opened", "open")
           ELSE IF r.phase = "open" THEN Obs(TRUE, "-", "open")
           ELSE IF ShouldOpen(c, r.log, k, t) THEN Obs(TRUE, "circuit_opened", "open")
           ELSE Obs(TRUE, "-", "closed")
      [] op = "cancel" -> Obs(TRUE, "-", r.phase)

\* entries that could still matter for an explanation at time t (bookkeeping only)
Recent(c, log, t) == SelectSeq(log, LAMBDA e : t - e.t < c.W)

\* next reference state.  It follows the *observed* post-state `state` so that
\* after a disagreement the remainder of a trace is still judged sensibly;
\* when observation and expectation agree this is the reference semantics.
RNext(c, r, op, k, t, allowed, state) ==
    IF state # r.phase THEN
        \* a transition was observed
        [phase |-> state,
         t0    |-> IF state = "open" THEN t ELSE r.t0,
         out   |-> state = "half",
         log   |-> <<>>,
         stale |-> Recent(c, IF op = "fail" THEN Append(r.stale \o r.log, [k |-> k, t |-> t])
                                            ELSE r.stale \o r.log, t),
         closedOnce |-> r.closedOnce \/ state = "closed"]
    ELSE IF r.phase = "closed" /\ op = "fail" THEN [r EXCEPT !.log = Append(@, [k |-> k, t |-> t])]
    ELSE IF op = "fail" THEN [r EXCEPT !.stale = Recent(c, Append(@, [k |-> k, t |-> t]), t)]   \* while open / half-open
    ELSE IF r.phase = "half" /\ op = "allow" /\ allowed THEN [r EXCEPT !.out = TRUE]
    ELSE IF r.phase = "half" /\ op = "cancel" THEN [r EXCEPT !.out = FALSE]
    ELSE r

\* Judgement of one observed operation: the set of violated clauses.
\* Clause names carry the property they belong to.
RJudge(c, r, op, k, t, allowed, ev, state) ==
    LET x == RExpect(c, r, op, k, t)
        bad == x.allowed # allowed \/ x.state # state \/ x.ev # ev
        staleOpen ==
            \* opened although the reference says no, and entries recorded before
            \* the last close would explain it
            /\ r.phase = "closed" /\ op = "fail" /\ state = "open" /\ x.state = "closed"
            /\ r.closedOnce /\ ShouldOpen(c, r.stale \o r.log, k, t)
    IN  IF ~bad THEN {}
        ELSE IF r.phase = "closed" THEN
                 (IF op = "fail" THEN {"C06:fail-opens-iff-threshold-in-window"}
                                 ELSE {"C06:closed-changes-only-on-counted-failure"})
                 \cup (IF staleOpen THEN {"C07:close-clears-history"} ELSE {})
        ELSE IF r.phase = "open" THEN
                 (IF op = "allow"
                  THEN (IF x.allowed THEN {"C07:admit-probe-at-recovery-timeout"}
                                     ELSE {"C07:reject-while-open"})
                  ELSE {"C07:open-ignores-records"})
        ELSE \* half
             (IF op = "allow" THEN {"C07:single-probe"}
              ELSE IF op = "ok" THEN {"C07:probe-success-closes"}
              ELSE IF op = "fail" THEN {"C07:probe-failure-reopens"}
              ELSE {"C07:cancel-frees-probe-slot"})
=============================================================================
