------------------------------ MODULE BudgetIndX ------------------------------
(***************************************************************************)
(* TLC cross-check binding the symbolic proof's formulation (BudgetInd) to *)
(* the model the code is validated against (Budget.tla): on every          *)
(* reachable state for small constants, each step of BudgetInd is          *)
(* Budget!UApply of the recorded operation, with the same return value and *)
(* the same deque, and its grant log is Budget!GNext.                      *)
(***************************************************************************)
EXTENDS BudgetInd, TLC

BoundedTimes == 0..8
U == INSTANCE Budget
c == [max |-> Max, W |-> W]

StepIsUApply ==
    [][ LET r == U!UApply(c, q, did'.op, did'.cost, last') IN
        /\ q' = r.q
        /\ did'.ret = r.ret
        /\ g' = U!GNext(c, g, did'.op, did'.cost, last', r.ret)
        /\ agree' = (agree /\ U!GJudge(c, g, did'.op, did'.cost, last', r.ret) = {}) ]_<<q, g, last, agree, did>>

Spec == Init /\ [][Next]_<<q, g, last, agree, did>>
Depth == TLCGet("level") <= 9
=============================================================================
