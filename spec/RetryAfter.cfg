SPECIFICATION Spec
INVARIANT Checked
INVARIANT Exported
CHECK_DEADLOCK FALSE
