SPECIFICATION Spec
CONSTANTS
  Classes <- Classes4
  Outs <- OutsC02
  Durs = {0, 1, 2, 5}
  CDurs <- SomeDur
  EDurs <- SomeDur
  Rets <- RetsC02
  Advs <- AdvsAll
  Decs <- DecsSleep
  BFaults <- BFaultsNone
  Ras <- RasNone
  Modes = {"call", "exec"}
  RunGaps <- GapsNone
  NRuns = 1
  Configs <- ConfigsC02
  RecordHist = FALSE
INVARIANT NoViolation
INVARIANT AttemptsBounded
INVARIANT InvokeWithinDeadline
INVARIANT SleepWithinRemaining
INVARIANT DeliveriesRelated
CHECK_DEADLOCK FALSE
