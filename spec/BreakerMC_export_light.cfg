SPECIFICATION Spec
CONSTANTS
  ClassSet = {"A", "B", "C"}
  MaxNow = 6
  MaxDepth = 4
  Export = TRUE
  Profile = "quick"
CONSTRAINT DepthBound
ACTION_CONSTRAINT ExportEdge
INVARIANT NoViolation
CHECK_DEADLOCK FALSE
