------------------------------ MODULE Classify ------------------------------
(***************************************************************************)
(* C19: decision tables of the built-in classifiers.                       *)
(*                                                                         *)
(* An exception is abstracted to                                           *)
(*   marker   none | Timeout | Permanent | RateLimit | Concurrency | Server *)
(*   status, status_code, code : abstract attribute values (below)         *)
(*   arg      first element of args (abstract value)                       *)
(*   name     category of the class name: plain | auth | forbid | timeout   *)
(*            | connection                                                 *)
(* An abstract value is [c, n]: c in absent (attribute not set), none,     *)
(* true, false, int (n = the integer), big (an int beyond 64 bits), float  *)
(* (n.0), nan, str (decimal digits of n), bytes, list ([n]), obj (a plain  *)
(* object), empty ("").                                                    *)
(*                                                                         *)
(*  Impl..    implementation-shaped functions (classify.py, extras/http.py)*)
(*            with Python's truthiness and isinstance(x, int) semantics    *)
(*            (bool is an int);                                            *)
(*  Allowed.. property-level relation: the set of classes the statement    *)
(*            permits.  A singleton where the statement fixes the answer   *)
(*            (marker types; documented integer status with marker >       *)
(*            numeric > names), every ErrorClass elsewhere.  "Never raises *)
(*            and returns an ErrorClass" is checked on the real code for   *)
(*            every case.                                                  *)
(* TLC checks Impl \in Allowed on the whole abstract domain and exports    *)
(* every case; the harness concretises each abstract value several ways.   *)
(***************************************************************************)
EXTENDS Integers, Sequences, FiniteSets, TLC, Json

All == {"AUTH", "PERMISSION", "PERMANENT", "CONCURRENCY", "RATE_LIMIT", "SERVER_ERROR",
        "TRANSIENT", "UNKNOWN"}

Markers == {"none", "Timeout", "Permanent", "RateLimit", "Concurrency", "Server"}
MarkerClass(m) == CASE m = "Timeout" -> "TRANSIENT" [] m = "Permanent" -> "PERMANENT"
                    [] m = "RateLimit" -> "RATE_LIMIT" [] m = "Concurrency" -> "CONCURRENCY"
                    [] m = "Server" -> "SERVER_ERROR"
Names == {"plain", "auth", "forbid", "timeout", "connection"}

V(c, n) == [c |-> c, n |-> n]
Absent == V("absent", 0)
IntGrid == {-1, 0, 1, 99, 100, 200, 399, 400, 401, 403, 404, 408, 409, 418, 422, 429, 499, 500,
            503, 599, 600, 700}
NonInts == {V("none", 0), V("true", 1), V("false", 0), V("big", 0), V("float", 429), V("nan", 0),
            V("str", 429), V("bytes", 429), V("list", 429), V("obj", 0), V("empty", 0)}
Values == {Absent} \cup {V("int", n) : n \in IntGrid} \cup NonInts
\* a smaller grid for the attributes that are not in focus
ValuesSmall == {Absent, V("none", 0), V("int", 0), V("int", 404), V("int", 429), V("int", 503),
                V("true", 1), V("str", 429), V("obj", 0)}

\* Python semantics
Truthy(v) == CASE v.c \in {"absent", "none", "false", "empty"} -> FALSE
               [] v.c = "int" -> v.n # 0
               [] OTHER -> TRUE
IsInt(v) == v.c \in {"int", "true", "false", "big"}          \* isinstance(v, int)
IntVal(v) == IF v.c = "big" THEN 1000000000 ELSE v.n        \* value used in comparisons
Get(v) == IF v.c = "absent" THEN V("none", 0) ELSE v         \* getattr(err, name, None)

(***************************************************************************)
(* Implementation-shaped                                                   *)
(***************************************************************************)
DefaultTable(n) ==
    CASE n = 401 -> "AUTH" [] n = 403 -> "PERMISSION" [] n \in {400, 404, 422} -> "PERMANENT"
      [] n = 409 -> "CONCURRENCY" [] n = 408 -> "TRANSIENT" [] n = 429 -> "RATE_LIMIT"
      [] n >= 500 /\ n < 600 -> "SERVER_ERROR" [] OTHER -> "-"

NameClass(nm) == CASE nm = "auth" -> "AUTH" [] nm = "forbid" -> "PERMISSION"
                   [] nm \in {"timeout", "connection"} -> "TRANSIENT" [] OTHER -> "-"

\* classify._classify
ImplClassify(x, useNames) ==
    IF x.marker # "none" THEN MarkerClass(x.marker)
    ELSE LET code == IF Truthy(Get(x.status)) THEN Get(x.status) ELSE Get(x.code)
             t == IF IsInt(code) THEN DefaultTable(IntVal(code)) ELSE "-"
         IN  IF t # "-" THEN t
             ELSE IF useNames /\ NameClass(x.name) # "-" THEN NameClass(x.name)
             ELSE "UNKNOWN"
ImplDefault(x) == ImplClassify(x, TRUE)
ImplStrict(x) == ImplClassify(x, FALSE)

\* extras/http._coerce_status + http_classifier
HttpStatus(x) ==
    IF IsInt(x.status) THEN IntVal(x.status)
    ELSE IF IsInt(x.status_code) THEN IntVal(x.status_code)
    ELSE IF IsInt(x.code) THEN IntVal(x.code)
    ELSE IF IsInt(x.arg) /\ IntVal(x.arg) >= 100 /\ IntVal(x.arg) <= 599 THEN IntVal(x.arg)
    ELSE -999                                                            \* None
ImplHttp(x) ==
    LET s == HttpStatus(x) IN
    IF s = -999 THEN ImplDefault(x)
    ELSE CASE s = 401 -> "AUTH" [] s = 403 -> "PERMISSION" [] s = 409 -> "CONCURRENCY"
           [] s = 429 -> "RATE_LIMIT" [] s = 408 -> "TRANSIENT"
           [] s >= 500 /\ s < 600 -> "SERVER_ERROR" [] s \in {400, 404} -> "PERMANENT"
           [] OTHER -> "UNKNOWN"

(***************************************************************************)
(* Property level                                                          *)
(***************************************************************************)
Documented(n) ==
    CASE n = 401 -> {"AUTH"} [] n = 403 -> {"PERMISSION"} [] n \in {400, 404} -> {"PERMANENT"}
      [] n = 409 -> {"CONCURRENCY"} [] n = 408 -> {"TRANSIENT"} [] n = 429 -> {"RATE_LIMIT"}
      [] n >= 500 /\ n <= 599 -> {"SERVER_ERROR"}
      [] OTHER -> All \ {"SERVER_ERROR"}      \* the 5xx range is two-sided: nothing outside it

\* the integer status of an exception as default/strict see it, when unambiguous
PlainInt(v) == v.c = "int"
EffDefault(x) ==
    IF PlainInt(x.status) /\ x.status.n # 0 THEN x.status.n
    ELSE IF x.status.c \in {"absent", "none"} /\ PlainInt(x.code) THEN x.code.n
    ELSE -999
AllowedDefault(x) ==
    IF x.marker # "none" THEN {MarkerClass(x.marker)}
    ELSE IF EffDefault(x) # -999 THEN Documented(EffDefault(x))
    ELSE All
AllowedStrict(x) == AllowedDefault(x)

\* http: the first attribute that is an integer decides; bools and huge ints are
\* integers without a documented meaning
EffHttp(x) ==
    LET first == IF IsInt(x.status) THEN x.status ELSE IF IsInt(x.status_code) THEN x.status_code
                 ELSE IF IsInt(x.code) THEN x.code ELSE Absent
    IN  IF first.c = "int" THEN first.n
        ELSE IF first.c # "absent" THEN -998                  \* bool / big: open
        ELSE IF PlainInt(x.arg) /\ x.arg.n >= 100 /\ x.arg.n <= 599 THEN x.arg.n
        ELSE -999                                             \* no status: falls back
AllowedHttp(x) ==
    IF EffHttp(x) = -999 THEN {ImplDefault(x)}               \* equals default_classifier
    ELSE IF EffHttp(x) = -998 THEN All
    ELSE Documented(EffHttp(x))

(***************************************************************************)
(* Domains and checks                                                      *)
(***************************************************************************)
Exc(m, st, sc, co, ar, nm) ==
    [marker |-> m, status |-> st, status_code |-> sc, code |-> co, arg |-> ar, name |-> nm]

DomDefault == { Exc(m, st, Absent, co, Absent, nm) :
                  m \in Markers, st \in Values, co \in ValuesSmall, nm \in Names }
              \cup { Exc("none", st, Absent, co, Absent, nm) :
                  st \in ValuesSmall, co \in Values, nm \in Names }
DomHttp == { Exc("none", st, sc, co, ar, nm) :
                  st \in Values, sc \in ValuesSmall, co \in ValuesSmall,
                  ar \in {Absent, V("int", 503), V("int", 42)}, nm \in {"plain", "auth"} }
           \cup { Exc(m, Absent, sc, co, ar, "plain") :
                  m \in {"none", "Permanent"}, sc \in Values, co \in ValuesSmall,
                  ar \in {Absent, V("int", 99), V("int", 100), V("int", 404), V("int", 599),
                          V("int", 600), V("true", 1), V("str", 429), V("float", 429)} }

DefaultOK == \A x \in DomDefault : ImplDefault(x) \in AllowedDefault(x)
StrictOK  == \A x \in DomDefault : ImplStrict(x) \in AllowedStrict(x)
\* strict never looks at names
StrictIgnoresNames == \A x \in DomDefault : ImplStrict(x) = ImplStrict([x EXCEPT !.name = "plain"])
HttpOK    == \A x \in DomHttp : ImplHttp(x) \in AllowedHttp(x)

(***************************************************************************)
(* SQLSTATE classifiers (extras/sqlstate.py, extras/pyodbc.py)             *)
(*  sqlattr  absent | none | empty | obj | str (a code) | int (40001)      *)
(*  argshape none | bare ("40001") | bracket ("[40001] msg") | embedded    *)
(*           ("x 40001 y") | second (a string without a code, then         *)
(*           "[40001] msg") | wordbracket ("ERROR [40001] msg": another    *)
(*           five-character token before the bracketed state - pyodbc's    *)
(*           classifier reads the bracketed one, the generic one the first *)
(*           token) | nonstr (40001 as an int in args)                     *)
(* A code is [s, p]: the five characters and their two-character prefix.   *)
(***************************************************************************)
Cd(s, p) == [s |-> s, p |-> p]
Codes == {Cd("40001", "40"), Cd("40P01", "40"), Cd("HYT00", "HY"), Cd("HYT01", "HY"),
          Cd("08S01", "08"), Cd("08001", "08"), Cd("28000", "28"), Cd("28P01", "28"),
          Cd("42000", "42"), Cd("42P01", "42"), Cd("23505", "23"), Cd("ABCDE", "AB")}
SqlTable(cd) ==
    CASE cd.s \in {"40001", "40P01"} -> "CONCURRENCY"
      [] cd.s \in {"HYT00", "HYT01", "08S01"} \/ cd.p = "08" -> "TRANSIENT"
      [] cd.p = "28" -> "AUTH"
      [] cd.s \in {"42000", "42P01"} -> "PERMANENT"
      [] OTHER -> "UNKNOWN"
SqlDocumented(cd) ==
    CASE cd.s \in {"40001", "40P01"} -> {"CONCURRENCY"}
      [] cd.s \in {"HYT00", "HYT01", "08S01"} \/ cd.p = "08" -> {"TRANSIENT"}
      [] cd.p = "28" -> {"AUTH"}
      [] cd.s \in {"42000", "42P01"} -> {"PERMANENT"}
      [] OTHER -> All
SqlAttrs == {"absent", "none", "empty", "obj", "str", "int", "bytes", "bytes_nonascii", "big",
             "float", "list"}
ArgShapes == {"none", "bare", "bracket", "embedded", "second", "wordbracket", "nonstr"}
DomSql == { [attr |-> a, acode |-> ac, shape |-> sh, scode |-> sc] :
              a \in SqlAttrs, ac \in Codes, sh \in ArgShapes, sc \in Codes }
\* which code the classifier ends up with ("-" none; "?" a truthy non-code attribute)
AttrCode(x) == IF x.attr = "str" THEN x.acode
               ELSE IF x.attr = "int" THEN Cd("40001", "40")
               ELSE IF x.attr \in {"obj", "bytes", "bytes_nonascii", "big", "float", "list"}
                    THEN Cd("?", "?")          \* truthy, but its str() is not a documented code
               ELSE Cd("-", "-")
SqlFound(x) == IF AttrCode(x).s # "-" THEN AttrCode(x)
               ELSE IF x.shape \in {"bare", "bracket", "embedded", "second"} THEN x.scode
               ELSE IF x.shape = "wordbracket" THEN Cd("?", "?") ELSE Cd("-", "-")
PyodbcFound(x) == IF AttrCode(x).s # "-" THEN AttrCode(x)
                  ELSE IF x.shape \in {"bracket", "second", "wordbracket"} THEN x.scode ELSE Cd("-", "-")
ImplSql(x) == IF SqlFound(x).s = "-" THEN "UNKNOWN" ELSE SqlTable(SqlFound(x))   \* default(plain) = UNKNOWN
ImplPyodbc(x) == IF PyodbcFound(x).s = "-" THEN "UNKNOWN" ELSE SqlTable(PyodbcFound(x))
AllowedSql(x) == IF SqlFound(x).s = "-" THEN {"UNKNOWN"}                         \* falls back to default
                 ELSE IF SqlFound(x).s = "?" THEN All ELSE SqlDocumented(SqlFound(x))
AllowedPyodbc(x) == IF PyodbcFound(x).s \in {"-", "?"} THEN All ELSE SqlDocumented(PyodbcFound(x))
SqlOK == \A x \in DomSql : ImplSql(x) \in AllowedSql(x) /\ ImplPyodbc(x) \in AllowedPyodbc(x)

Case(which, x, impl, allowed) ==
    [cls |-> which, x |-> x, impl |-> impl, allowed |-> allowed]

ExportAll ==
    /\ \A x \in DomDefault :
          /\ PrintT(<<"CASE", ToJson(Case("default", x, ImplDefault(x), AllowedDefault(x)))>>)
          /\ PrintT(<<"CASE", ToJson(Case("strict", x, ImplStrict(x), AllowedStrict(x)))>>)
    /\ \A x \in DomHttp :
          PrintT(<<"CASE", ToJson(Case("http", x, ImplHttp(x), AllowedHttp(x)))>>)
    /\ \A x \in DomSql :
          /\ PrintT(<<"CASE", ToJson(Case("sqlstate", x, ImplSql(x), AllowedSql(x)))>>)
          /\ PrintT(<<"CASE", ToJson(Case("pyodbc", x, ImplPyodbc(x), AllowedPyodbc(x)))>>)

VARIABLE done
Init == done = FALSE
Next == done = FALSE /\ done' = TRUE
Spec == Init /\ [][Next]_done

Checked == done => (DefaultOK /\ StrictOK /\ StrictIgnoresNames /\ HttpOK /\ SqlOK)
Exported == done => ExportAll
=============================================================================
