----------------------------- MODULE RetryLoop -----------------------------
(***************************************************************************)
(* M: implementation-shaped model of the retry loop of redress             *)
(*    (policy/runner/{sync,async}_core.py, policy/state.py,                *)
(*     policy/retry_helpers.py, policy/runner/logic.py).                   *)
(*                                                                         *)
(* One action per interaction between the library and its environment, in  *)
(* the order the code performs them.  Every action produces exactly one    *)
(* observable event (variable ev); all nondeterminism belongs to the       *)
(* environment: outcome and duration of each attempt, answers of abort_if, *)
(* strategy return values, budget fill level, sleep-handler decisions,     *)
(* sleeper behaviour.  Given those choices M is deterministic.             *)
(*                                                                         *)
(* Order of call-outs for attempt n (both runners, call and execute):      *)
(*   poll(top) -> invoke -> [ok:  rclassify(none) -> emit success]         *)
(*                          [exc: poll(fail) -> classify -> handle]        *)
(*                          [res: rclassify(k) -> poll(fail) -> handle]    *)
(*   handle = ordered stop checks of _RetryState._handle_failure:          *)
(*     per-class cap, non-retryable, UNKNOWN cap, elapsed > deadline,      *)
(*     no strategy, remaining <= 0, attempt >= max_attempts,               *)
(*     then strategy -> sanitise -> budget.consume -> emit retry           *)
(*   retry: poll(retry) -> handler -> before_sleep -> sleeper ->           *)
(*          elapsed > deadline ? emit deadline_exceeded : next attempt     *)
(*                                                                         *)
(* Times are integer ticks, relative to the start of the run.  Classes are *)
(* ErrorClass names.  -1 encodes None for integers, "-" for names.         *)
(***************************************************************************)
EXTENDS Integers, Sequences, FiniteSets, TLC

BudM == INSTANCE Budget          \* the shared rolling-window budget (budget.py)

CONSTANTS
    Classes,      \* error classes the classifiers may return in this model
    Outs,         \* attempt outcomes offered by the environment
    Durs,         \* attempt durations (ticks)
    CDurs,        \* time spent inside a classifier call (ticks)
    EDurs,        \* time spent inside the metric/log hooks while an event is reported
    Rets,         \* strategy return values: records [kind, v]
    Advs,         \* sleeper behaviours: "exact", "over1", "over4", "none" and the faults
                  \* "kbd", "sysexit", "cancel" (sleeper raises a cancellation-type exception)
    Decs,         \* sleep-handler decisions offered: subset of {"sleep","defer","abort"}
    BFaults,      \* before_sleep behaviours: "none", "error" (ordinary exception, must be
                  \* swallowed), "kbd", "sysexit", "cancel" (must propagate)
    Ras,          \* retry_after hints attached to failures (-1 = none)
    Modes,        \* subset of {"call", "exec"}: how the result is delivered
    NRuns,        \* consecutive runs on policy objects sharing one budget
    RunGaps       \* clock advances between consecutive runs

NonRetry == {"PERMANENT", "AUTH", "PERMISSION"}
None == -1
Unobs == -2       \* argument not observable (legacy 3-argument strategies)
SleeperExc == -3  \* "id" of the exception object raised by the sleeper
BSleepExc == -4   \* "id" of the exception object raised by before_sleep

CancelOuts == {"cancel", "kbd", "sysexit", "nested"}
\* ways an attempt can end that M offers (the fault drivers add others: GeneratorExit, ...)
ModelledOuts == {"ok", "exc", "excsame", "hang", "res", "abort"} \cup CancelOuts
\* "hang": the operation does not come back; attempt_timeout_s (ATimeout ticks in every run that
\* offers this outcome) fires and the runner ends the attempt itself with a TimeoutError of its own
\* making: an exception-caused failure that the classifier sees like any foreign exception
\* (UNKNOWN, no hint), observed exactly ATimeout ticks after the attempt began
ExcOuts == {"exc", "excsame", "hang"}
ATimeout == 2

(***************************************************************************)
(* Configuration c:                                                        *)
(*  maxAtt, lim[k] (None = no cap), maxUnk (None), D (deadline, ticks),    *)
(*  hasDefault, strat (classes with their own strategy), legacy (strategy  *)
(*  names registered with the 3-argument signature), budget (tokens; None  *)
(*  = no budget), handler, abort, rc (result classifier configured),       *)
(*  bsleep (before_sleep configured), opname (operation= given), hooks      *)
(*  (on_attempt_start / on_attempt_end configured), adaptive (strategy     *)
(*  names whose objects have record_failure / record_success: the loop      *)
(*  reports outcomes to them, as it does for AdaptiveStrategy)              *)
(***************************************************************************)

SInit(c) == [pc |-> IF c.maxAtt = 0 THEN "zeroexh" ELSE "top",
             run |-> 1, att |-> 1, ninv |-> 0, now |-> 0,
             prev |-> None,
             cnt |-> [k \in Classes |-> 0], unk |-> 0,
             lk |-> "-", lcause |-> "-", lid |-> None, lra |-> None,
             ck |-> "-", ccause |-> "-", cra |-> None,    \* failure being processed
             cout |-> "-",                                \* outcome of the last invocation
             eobj |-> None,    \* identity of the exception object raised last (= the attempt that
                               \* raised it first: "excsame" raises the same object again)
             cobj |-> None,    \* identity of the object describing the failure being processed
             stop |-> "-", bq |-> BudM!UInit, epoch |-> 0, sl |-> None,
             dkind |-> "-", own |-> FALSE, abn |-> 0,
             lstrat |-> "-",    \* _last_strategy: the strategy selected for the latest failure
             mode |-> "-",      \* delivery style; fixed at the start when hooks are configured
             absrc |-> "-",     \* where an abort came from: top | fail | retry | own | handler
             adec |-> "-", astop |-> "-", acause |-> "-", asleep |-> None, anext |-> "-"]

SInitM(c, md) == [SInit(c) EXCEPT !.mode = md]

\* next run: everything is fresh except the shared budget; the clock has moved on
SNewRun(c, s, gap) == [SInit(c) EXCEPT !.run = s.run + 1, !.bq = s.bq, !.mode = s.mode,
                                       !.epoch = s.epoch + s.now + gap]

(***************************************************************************)
(* Events                                                                  *)
(***************************************************************************)
EvPoll(pos, ans, t)   == [e |-> "poll", ans |-> ans, t |-> t]   \* pos: documentation only
EvInvoke(n, t, out, k, ra, dur) ==
    [e |-> "invoke", n |-> n, t |-> t, out |-> out, k |-> k, ra |-> ra, dur |-> dur, t1 |-> t + dur]
EvRClassify(n, k, ra, dur, t) == [e |-> "rclassify", n |-> n, k |-> k, ra |-> ra, dur |-> dur, t |-> t]
EvClassify(n, k, ra, dur, t) == [e |-> "classify", n |-> n, k |-> k, ra |-> ra, dur |-> dur, t |-> t]
EvStrategy(which, n, k, ra, prev, rem, cause, ret, t) ==
    [e |-> "strategy", which |-> which, n |-> n, k |-> k, ra |-> ra, prev |-> prev,
     rem |-> rem, cause |-> cause, ret |-> ret, t |-> t]
EvSRec(which, what, k, t) == [e |-> "srec", which |-> which, what |-> what, k |-> k, t |-> t]
EvConsume(ok, t, at)  == [e |-> "consume", ok |-> ok, t |-> t, at |-> at]   \* at: absolute time
EvEmitD(name, n, sleep, k, err, stop, cause, ra, op, dur, t) ==
    [e |-> "emit", name |-> name, n |-> n, sleep |-> sleep, k |-> k, err |-> err,
     stop |-> stop, cause |-> cause, ra |-> ra, op |-> op, dur |-> dur, t |-> t]
EvEmit(name, n, sleep, k, err, stop, cause, ra, op, t) ==
    EvEmitD(name, n, sleep, k, err, stop, cause, ra, op, 0, t)
EvHandler(n, sleep, dec, t) == [e |-> "handler", n |-> n, sleep |-> sleep, dec |-> dec, t |-> t]
EvBSleep(sleep, f, t) == [e |-> "bsleep", sleep |-> sleep, fault |-> f, t |-> t]
\* ut, us: the requested sleep in microseconds as whole ticks plus a remainder (1 tick = 15625 us;
\* TLC's integers are 32 bit), so that a delay which is not a whole number of ticks can still be
\* judged against the remaining time
EvSleep(s, adv, t, t1) == [e |-> "sleep", s |-> s, ut |-> s, us |-> 0, adv |-> adv, t |-> t, t1 |-> t1]
View(kind, id, ok, stop, attempts, lastk, cause, lexc, lres, next, own) ==
    [kind |-> kind, id |-> id, ok |-> ok, stop |-> stop, attempts |-> attempts, lastk |-> lastk,
     cause |-> cause, lexc |-> lexc, lres |-> lres, next |-> next, own |-> own]
EvAStart(n, t) == [e |-> "astart", n |-> n, t |-> t]
EvAEnd(n, dec, stop, cause, sleep, t) ==
    [e |-> "aend", n |-> n, decision |-> dec, stop |-> stop, cause |-> cause, sleep |-> sleep, t |-> t]
EvDeliver(mode, v, t, gap) == [e |-> "deliver", mode |-> mode, v |-> v, t |-> t, gap |-> gap]

(***************************************************************************)
(* Pure helpers mirroring the code                                         *)
(***************************************************************************)
\* _select_strategy: per-class table, then the default
StrategyFor(c, k) == IF k \in c.strat THEN k ELSE IF c.hasDefault THEN "default" ELSE "-"

\* isfinite / max(0, .) / min(., remaining)
Sanitise(ret, rem) ==
    LET v0 == IF ret.kind = "val" THEN ret.v ELSE 0      \* nan, +inf, -inf -> 0.0
        v1 == IF v0 < 0 THEN 0 ELSE v0
    IN  IF v1 < rem THEN v1 ELSE rem

SleepFaults == {"kbd", "sysexit", "cancel"}
Advance(adv, s) == CASE adv = "exact" -> s
                     [] adv = "over1" -> s + 1
                     [] adv = "over4" -> s + 4
                     [] adv = "none"  -> 0
                     [] adv \in SleepFaults -> 0

StopEvent(stop) ==
    CASE stop = "MAX_ATTEMPTS_PER_CLASS" -> "max_attempts_exceeded"
      [] stop = "NON_RETRYABLE_CLASS"    -> "permanent_fail"
      [] stop = "MAX_UNKNOWN_ATTEMPTS"   -> "max_unknown_attempts_exceeded"
      [] stop = "DEADLINE_EXCEEDED"      -> "deadline_exceeded"
      [] stop = "NO_STRATEGY"            -> "no_strategy_configured"
      [] stop = "MAX_ATTEMPTS_GLOBAL"    -> "max_attempts_exceeded"
      [] stop = "BUDGET_EXHAUSTED"       -> "budget_exhausted"

\* the ordered stop checks of _handle_failure, evaluated on the updated counters
HardStop(c, s1, k) ==
    IF c.lim[k] # None /\ s1.cnt[k] > c.lim[k] THEN "MAX_ATTEMPTS_PER_CLASS"
    ELSE IF k \in NonRetry THEN "NON_RETRYABLE_CLASS"
    ELSE IF k = "UNKNOWN" /\ c.maxUnk # None /\ s1.unk > c.maxUnk THEN "MAX_UNKNOWN_ATTEMPTS"
    ELSE IF s1.now > c.D THEN "DEADLINE_EXCEEDED"
    ELSE IF StrategyFor(c, k) = "-" THEN "NO_STRATEGY"
    ELSE IF c.D - s1.now <= 0 THEN "DEADLINE_EXCEEDED"
    ELSE IF s1.att >= c.maxAtt THEN "MAX_ATTEMPTS_GLOBAL"
    ELSE "-"

(***************************************************************************)
(* Transitions: MStep(c, s) is the set of <<event, next state>> pairs      *)
(***************************************************************************)
Err(cause) == cause = "exception"

\* unknown_attempts is only incremented when the per-class and non-retryable
\* checks did not already stop the run
NotedFor(c, s, k, cause, ra) ==
    LET s0 == [s EXCEPT !.lk = k, !.lcause = cause, !.lid = s.cobj, !.lra = ra,
                        !.cnt[k] = @ + 1]
        capped == c.lim[k] # None /\ s0.cnt[k] > c.lim[k]
    IN  IF k = "UNKNOWN" /\ ~capped THEN [s0 EXCEPT !.unk = @ + 1] ELSE s0

\* on_attempt_end is called before the loop acts on the attempt's outcome
ViaEnd(c, s1, dec, stop, cause, sleep, next) ==
    IF c.hooks THEN [s1 EXCEPT !.pc = "aend", !.adec = dec, !.astop = stop, !.acause = cause,
                               !.asleep = sleep, !.anext = next]
    ELSE [s1 EXCEPT !.pc = next]

AEnd(c, s) ==
    IF s.pc = "aend" THEN
        { <<EvAEnd(s.att, s.adec, s.astop, s.acause, s.asleep, s.now),
            IF s.anext = "top" THEN [s EXCEPT !.pc = "top", !.att = @ + 1] ELSE [s EXCEPT !.pc = s.anext]>> }
    ELSE {}

AStart(c, s) ==
    IF c.hooks /\ (s.pc = "astart" \/ (s.pc = "top" /\ ~c.abort)) THEN
        { <<EvAStart(s.att, s.now), [s EXCEPT !.pc = "invoke"]>> }
    ELSE {}

PollTop(c, s) ==
    IF s.pc = "top" /\ c.abort THEN
        { <<EvPoll("top", a, s.now),
            IF a THEN [s EXCEPT !.pc = "abortemit", !.abn = s.att - 1, !.absrc = "top"]
                 ELSE [s EXCEPT !.pc = IF c.hooks THEN "astart" ELSE "invoke"]>> : a \in BOOLEAN }
    ELSE {}

Invoke(c, s) ==
    IF (s.pc = "top" /\ ~c.abort /\ ~c.hooks) \/ s.pc = "invoke" THEN
        { LET o == od[1]  d == od[2] IN
          <<EvInvoke(s.att, s.now, o.out, o.k, o.ra, d),
            LET obj == IF o.out = "excsame" /\ s.eobj # None THEN s.eobj ELSE s.att
                s1 == [s EXCEPT !.now = s.now + d, !.ninv = s.att,
                                !.eobj = IF o.out \in ExcOuts THEN obj ELSE @,
                                !.cobj = obj,
                                !.ck = o.k, !.cra = o.ra, !.cout = o.out,
                                !.ccause = IF o.out \in ExcOuts THEN "exception"
                                           ELSE IF o.out = "res" THEN "result" ELSE "-"]
            IN  CASE o.out = "ok"    -> [s1 EXCEPT !.pc = IF c.rc THEN "rcl_ok" ELSE "succ"]
                  [] o.out \in ExcOuts ->
                        \* "excsame": the operation raises the very object it raised last time
                        [s1 EXCEPT !.pc = IF c.abort THEN "pollfail" ELSE "classify"]
                  [] o.out = "res"   -> [s1 EXCEPT !.pc = "rcl_res"]
                  [] o.out = "abort" ->
                        \* _handle_abort_attempt_end, then handle_abort_in_call / _abort_outcome
                        ViaEnd(c, [s1 EXCEPT !.abn = s.att, !.own = TRUE, !.absrc = "own"],
                               "aborted", "ABORTED", "-", None, "abortemit")
                  [] o.out \in CancelOuts -> [s1 EXCEPT !.pc = "deliver", !.dkind = "cancel"]>>
          : od \in { p \in {x \in Outs : x.out \in ModelledOuts /\ (x.out = "res" => c.rc)
                                          /\ (x.out = "hang" => x.k = "UNKNOWN" /\ x.ra = None)}
                              \X (Durs \cup {ATimeout}) :
                      IF p[1].out = "hang" THEN p[2] = ATimeout ELSE p[2] \in Durs } }
    ELSE {}

RClassify(c, s) ==
    IF s.pc = "rcl_ok" THEN
        { <<EvRClassify(s.att, "none", None, d, s.now), [s EXCEPT !.pc = "succ", !.now = @ + d]>> : d \in CDurs }
    ELSE IF s.pc = "rcl_res" THEN
        { <<EvRClassify(s.att, s.ck, s.cra, d, s.now),
            [s EXCEPT !.pc = IF c.abort THEN "pollfail" ELSE "handle", !.now = @ + d]>> : d \in CDurs }
    ELSE {}

\* emit_success: state.record_success() tells the last used strategy, then the event
SRecSuccess(c, s) ==
    IF s.pc = "succ" /\ s.lstrat \in c.adaptive THEN
        { <<EvSRec(s.lstrat, "success", "-", s.now), [s EXCEPT !.pc = "succ2"]>> }
    ELSE {}

Success(c, s) ==
    IF (s.pc = "succ" /\ s.lstrat \notin c.adaptive) \/ s.pc = "succ2" THEN
        { <<EvEmitD("success", s.att, 0, "-", FALSE, "-", "-", None, c.opname, d, s.now),
            ViaEnd(c, [s EXCEPT !.dkind = "ok", !.now = @ + d], "success", "-", "-", None, "deliver")>>
          : d \in EDurs }
    ELSE {}

PollFail(c, s) ==
    IF s.pc = "pollfail" THEN
        { <<EvPoll("fail", a, s.now),
            IF a THEN [s EXCEPT !.pc = "abortemit", !.abn = s.att, !.absrc = "fail",
                                \* execute(): attempt_state.cause is still unset on the result path
                                !.acause = IF s.ccause = "result" THEN "-" ELSE s.ccause]
                 ELSE [s EXCEPT !.pc = IF s.ccause = "exception" THEN "classify" ELSE "handle"]>>
          : a \in BOOLEAN }
    ELSE {}

Classify(c, s) ==
    IF s.pc = "classify" THEN
        { <<EvClassify(s.cobj, s.ck, s.cra, d, s.now), [s EXCEPT !.pc = "handle", !.now = @ + d]>> : d \in CDurs }
    ELSE {}

\* the first five ordered stop checks of _handle_failure (before a strategy is selected)
EarlyStop(c, s1, k) ==
    IF c.lim[k] # None /\ s1.cnt[k] > c.lim[k] THEN "MAX_ATTEMPTS_PER_CLASS"
    ELSE IF k \in NonRetry THEN "NON_RETRYABLE_CLASS"
    ELSE IF k = "UNKNOWN" /\ c.maxUnk # None /\ s1.unk > c.maxUnk THEN "MAX_UNKNOWN_ATTEMPTS"
    ELSE IF s1.now > c.D THEN "DEADLINE_EXCEEDED"
    ELSE IF StrategyFor(c, k) = "-" THEN "NO_STRATEGY"
    ELSE "-"
\* ... and the two after the strategy has been selected (and told about the failure)
LateStop(c, s1) ==
    IF c.D - s1.now <= 0 THEN "DEADLINE_EXCEEDED"
    ELSE IF s1.att >= c.maxAtt THEN "MAX_ATTEMPTS_GLOBAL"
    ELSE "-"

\* every event passes through the metric and log hooks, which may take time (d)
StopStep(c, s, s1, k, hard) ==
    { <<EvEmitD(StopEvent(hard), s.att, 0, k, Err(s.ccause), hard, s.ccause, None, c.opname, d, s.now),
        ViaEnd(c, [s1 EXCEPT !.dkind = "stop", !.stop = hard, !.now = @ + d], "raise", hard, s.ccause,
               None, "deliver")>> : d \in EDurs }

StrategyStep(c, s, s1, k, r) ==
    LET which == StrategyFor(c, k)
        rem   == c.D - s1.now
        leg   == which \in c.legacy
    IN  <<EvStrategy(which, s.att, k, IF leg THEN Unobs ELSE s.cra, s.prev,
                     IF leg THEN Unobs ELSE rem, IF leg THEN "?" ELSE s.ccause, r, s.now),
          [s1 EXCEPT !.pc = IF c.budget # None THEN "consume" ELSE "retryemit",
                     !.sl = Sanitise(r, rem)]>>

\* _handle_failure: either a stop event, the record_failure call-out of an adaptive strategy,
\* or the strategy call
Handle(c, s) ==
    IF s.pc = "handle" THEN
        LET k     == s.ck
            s1    == NotedFor(c, s, k, s.ccause, s.cra)
            early == EarlyStop(c, s1, k)
            which == StrategyFor(c, k)
            s2    == [s1 EXCEPT !.lstrat = which]
        IN  IF early # "-" THEN StopStep(c, s, s1, k, early)
            ELSE IF which \in c.adaptive THEN
                { <<EvSRec(which, "failure", k, s.now), [s2 EXCEPT !.pc = "handle2"]>> }
            ELSE IF LateStop(c, s2) # "-" THEN StopStep(c, s, s2, k, LateStop(c, s2))
            ELSE { StrategyStep(c, s, s2, k, r) : r \in Rets }
    ELSE IF s.pc = "handle2" THEN
        LET k == s.ck IN
        IF LateStop(c, s) # "-" THEN StopStep(c, s, s, k, LateStop(c, s))
        ELSE { StrategyStep(c, s, s, k, r) : r \in Rets }
    ELSE {}

\* budget.consume(): the real rolling-window budget, at absolute time epoch + now
Consume(c, s) ==
    IF s.pc = "consume" THEN
        LET at  == s.epoch + s.now
            res == BudM!UConsume([max |-> c.budget, W |-> c.bW], s.bq, 1, at)
        IN  { <<EvConsume(res.ret = 1, s.now, at),
                [s EXCEPT !.bq = res.q, !.pc = IF res.ret = 1 THEN "retryemit" ELSE "budgetstop"]>> }
    ELSE {}

BudgetStop(c, s) ==
    IF s.pc = "budgetstop" THEN
        { <<EvEmitD("budget_exhausted", s.att, 0, s.lk, Err(s.lcause), "BUDGET_EXHAUSTED",
                    s.lcause, None, c.opname, d, s.now),
            ViaEnd(c, [s EXCEPT !.dkind = "stop", !.stop = "BUDGET_EXHAUSTED", !.now = @ + d], "raise",
                   "BUDGET_EXHAUSTED", s.ccause, None, "deliver")>> : d \in EDurs }
    ELSE {}

RetryEmit(c, s) ==
    IF s.pc = "retryemit" THEN
        { <<EvEmitD("retry", s.att, s.sl, s.lk, Err(s.lcause), "-", s.lcause, s.lra, c.opname, d, s.now),
            [s EXCEPT !.prev = s.sl, !.now = @ + d,
                      !.pc = IF c.abort THEN "pollretry"
                             ELSE IF c.handler THEN "handler"
                             ELSE IF c.bsleep THEN "bsleep" ELSE "sleep"]>> : d \in EDurs }
    ELSE {}

PollRetry(c, s) ==
    IF s.pc = "pollretry" THEN
        { <<EvPoll("retry", a, s.now),
            IF a THEN [s EXCEPT !.pc = "abortemit", !.abn = s.att, !.absrc = "retry", !.acause = s.ccause]
                 ELSE [s EXCEPT !.pc = IF c.handler THEN "handler"
                                       ELSE IF c.bsleep THEN "bsleep" ELSE "sleep"]>>
          : a \in BOOLEAN }
    ELSE {}

Handler(c, s) ==
    IF s.pc = "handler" THEN
        { <<EvHandler(s.att, s.sl, d, s.now),
            CASE d = "sleep" -> [s EXCEPT !.pc = IF c.bsleep THEN "bsleep" ELSE "sleep"]
              [] d = "defer" -> [s EXCEPT !.pc = "schedemit"]
              [] d = "abort" -> [s EXCEPT !.pc = "abortemit", !.abn = s.att, !.absrc = "handler"]>> : d \in Decs }
    ELSE {}

\* _call_before_sleep: `except Exception: pass` - ordinary errors are swallowed,
\* cancellation-type exceptions propagate
BSleep(c, s) ==
    IF s.pc = "bsleep" THEN
        { <<EvBSleep(s.sl, f, s.now),
            IF f \in SleepFaults THEN [s EXCEPT !.pc = "deliver", !.dkind = "cancelbsleep"]
                                  ELSE [s EXCEPT !.pc = "sleep"]>> : f \in BFaults }
    ELSE {}

\* sleeper call, then _finalize_attempt's post-sleep deadline check
Sleep(c, s) ==
    IF s.pc = "sleep" THEN
        { <<EvSleep(s.sl, a, s.now, s.now + Advance(a, s.sl)),
            LET t1 == s.now + Advance(a, s.sl) IN
            IF a \in SleepFaults THEN [s EXCEPT !.pc = "deliver", !.dkind = "cancelsleep"]
            ELSE IF t1 > c.D THEN [s EXCEPT !.now = t1, !.pc = "dlemit"]
                 ELSE IF c.hooks THEN ViaEnd(c, [s EXCEPT !.now = t1], "retry", "-", s.ccause, s.sl, "top")
                 ELSE [s EXCEPT !.now = t1, !.pc = "top", !.att = @ + 1]>> : a \in Advs }
    ELSE {}

DeadlineEmit(c, s) ==
    IF s.pc = "dlemit" THEN
        { <<EvEmitD("deadline_exceeded", s.att, 0, s.lk, Err(s.lcause), "DEADLINE_EXCEEDED",
                    s.lcause, None, c.opname, d, s.now),
            ViaEnd(c, [s EXCEPT !.dkind = "stop", !.stop = "DEADLINE_EXCEEDED", !.now = @ + d], "raise",
                   "DEADLINE_EXCEEDED", s.ccause, None, "deliver")>> : d \in EDurs }
    ELSE {}

SchedEmit(c, s) ==
    IF s.pc = "schedemit" THEN
        { <<EvEmitD("scheduled", s.att, s.sl, s.lk, Err(s.lcause), "SCHEDULED", s.lcause, None,
                    c.opname, d, s.now),
            ViaEnd(c, [s EXCEPT !.dkind = "stop", !.stop = "SCHEDULED", !.now = @ + d], "scheduled",
                   "SCHEDULED", s.ccause, s.sl, "deliver")>> : d \in EDurs }
    ELSE {}

AbortEmit(c, s) ==
    IF s.pc = "abortemit" THEN
        { <<EvEmitD("aborted", s.abn, 0, "-", FALSE, "ABORTED", "-", None, c.opname, d, s.now),
            LET s1 == [s EXCEPT !.dkind = "abort", !.stop = "ABORTED", !.now = @ + d] IN
            \* sleep-handler ABORT: the outcome goes through on_attempt_end in both styles;
            \* abort_if after a failure: only execute() calls on_attempt_end (call() lets the
            \* AbortRetryError propagate from inside its except block)
            IF s.absrc = "handler" THEN ViaEnd(c, s1, "aborted", "ABORTED", s.ccause, None, "deliver")
            ELSE IF s.absrc \in {"fail", "retry"} /\ s.mode = "exec"
                 THEN ViaEnd(c, s1, "aborted", "ABORTED", s.acause, None, "deliver")
            ELSE [s1 EXCEPT !.pc = "deliver"]>> : d \in EDurs }
    ELSE {}

\* max_attempts = 0: the loop body never runs (emit_max_attempts_exceeded)
ZeroExhausted(c, s) ==
    IF s.pc = "zeroexh" THEN
        { <<EvEmitD("max_attempts_exceeded", 0, 0, "-", FALSE, "MAX_ATTEMPTS_GLOBAL", "-", None,
                    c.opname, d, s.now),
            [s EXCEPT !.pc = "deliver", !.dkind = "zero", !.stop = "MAX_ATTEMPTS_GLOBAL", !.now = @ + d]>>
          : d \in EDurs }
    ELSE {}

(***************************************************************************)
(* Delivery: the only place where call() and execute() differ              *)
(***************************************************************************)
LExc(s) == IF s.lcause = "exception" THEN s.lid ELSE None
LRes(s) == IF s.lcause = "result" THEN s.lid ELSE None

ExecView(s) ==
    CASE s.dkind = "ok" ->
           View("outcome", s.att, TRUE, "-", s.ninv, "-", "-", None, None, None, FALSE)
      [] s.dkind = "stop" ->
           View("outcome", None, FALSE, s.stop, s.ninv, s.lk, s.lcause, LExc(s), LRes(s),
                IF s.stop = "SCHEDULED" THEN s.sl ELSE None, FALSE)
      [] s.dkind = "abort" ->
           View("outcome", None, FALSE, "ABORTED", s.ninv, s.lk, s.lcause, LExc(s), LRes(s),
                None, FALSE)
      [] s.dkind = "cancel" ->
           View("cancel", s.att, FALSE, "-", None, "-", "-", None, None, None, TRUE)
      [] s.dkind = "cancelsleep" ->
           View("cancel", SleeperExc, FALSE, "-", None, "-", "-", None, None, None, TRUE)
      [] s.dkind = "cancelbsleep" ->
           View("cancel", BSleepExc, FALSE, "-", None, "-", "-", None, None, None, TRUE)
      [] s.dkind = "zero" ->
           View("outcome", None, FALSE, "MAX_ATTEMPTS_GLOBAL", 0, "-", "-", None, None, None, FALSE)

CallView(s) ==
    CASE s.dkind = "ok" ->
           View("ret", s.att, TRUE, "-", None, "-", "-", None, None, None, FALSE)
      [] s.dkind = "stop" /\ s.lcause = "exception" /\ s.stop # "SCHEDULED" ->
           View("exc", s.lid, FALSE, "-", None, "-", "-", None, None, None, TRUE)
      [] s.dkind = "stop" /\ (s.lcause = "result" \/ s.stop = "SCHEDULED") ->
           View("exhausted", None, FALSE, s.stop, s.att, s.lk, "-", LExc(s), LRes(s),
                IF s.stop = "SCHEDULED" THEN s.sl ELSE None, FALSE)
      [] s.dkind = "abort" ->
           View("abort", None, FALSE, "-", None, "-", "-", None, None, None, s.own)
      [] s.dkind = "cancel" ->
           View("cancel", s.att, FALSE, "-", None, "-", "-", None, None, None, TRUE)
      [] s.dkind = "cancelsleep" ->
           View("cancel", SleeperExc, FALSE, "-", None, "-", "-", None, None, None, TRUE)
      [] s.dkind = "cancelbsleep" ->
           View("cancel", BSleepExc, FALSE, "-", None, "-", "-", None, None, None, TRUE)
      [] s.dkind = "zero" ->
           View("runtime", None, FALSE, "-", None, "-", "-", None, None, None, FALSE)

\* C12: call() and execute() deliver the identical final result.  The call-style
\* delivery is a function of the execute-style one (up to whether an AbortRetryError
\* is the operation's own object, which an outcome does not carry).
CallOfExec(v) ==
    IF v.kind = "cancel" THEN v
    ELSE IF v.ok THEN View("ret", v.id, TRUE, "-", None, "-", "-", None, None, None, FALSE)
    ELSE IF v.stop = "ABORTED" THEN View("abort", None, FALSE, "-", None, "-", "-", None, None, None, FALSE)
    ELSE IF v.attempts = 0 THEN View("runtime", None, FALSE, "-", None, "-", "-", None, None, None, FALSE)
    ELSE IF v.cause = "exception" /\ v.stop # "SCHEDULED"
         THEN View("exc", v.lexc, FALSE, "-", None, "-", "-", None, None, None, TRUE)
    ELSE View("exhausted", None, FALSE, v.stop, v.attempts, v.lastk, "-", v.lexc, v.lres, v.next, FALSE)

Related(callv, execv) ==
    LET x == CallOfExec(execv) IN
    IF x.kind = "abort" THEN callv.kind = "abort" ELSE callv = x

Deliver(c, s) ==
    IF s.pc = "deliver" THEN
        LET ms == IF s.mode = "-" THEN Modes ELSE {s.mode} IN
        IF s.run < NRuns
        THEN { <<EvDeliver(m, IF m = "call" THEN CallView(s) ELSE ExecView(s), s.now, g),
                 SNewRun(c, s, g)>> : m \in ms, g \in RunGaps }
        ELSE { <<EvDeliver(m, IF m = "call" THEN CallView(s) ELSE ExecView(s), s.now, 0),
                 [s EXCEPT !.pc = "done"]>> : m \in ms }
    ELSE {}

MStep(c, s) ==
    PollTop(c, s) \cup Invoke(c, s) \cup RClassify(c, s) \cup Success(c, s) \cup PollFail(c, s)
    \cup Classify(c, s) \cup Handle(c, s) \cup Consume(c, s) \cup BudgetStop(c, s)
    \cup RetryEmit(c, s) \cup PollRetry(c, s) \cup Handler(c, s) \cup BSleep(c, s)
    \cup Sleep(c, s) \cup DeadlineEmit(c, s) \cup SchedEmit(c, s) \cup AbortEmit(c, s)
    \cup ZeroExhausted(c, s) \cup Deliver(c, s) \cup AStart(c, s) \cup AEnd(c, s) \cup SRecSuccess(c, s)
=============================================================================
