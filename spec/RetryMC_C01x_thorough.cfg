SPECIFICATION Spec
CONSTANTS
  Classes <- ClassesCaps
  Outs <- OutsCaps
  Durs = {0}
  CDurs <- ZeroDur
  EDurs <- ZeroDur
  Rets <- RetsOne
  Advs <- AdvsExact
  Decs <- DecsSleep
  BFaults <- BFaultsNone
  Ras <- RasNone
  Modes = {"call", "exec"}
  RunGaps <- GapsNone
  NRuns = 1
  Configs <- ConfigsC01
  RecordHist = TRUE
INVARIANT NoViolation
INVARIANT ExportBehaviours
CHECK_DEADLOCK FALSE
