SPECIFICATION Spec
CONSTANTS
  Classes <- ClassesCaps
  Outs <- OutsCaps
  Durs = {0}
  CDurs <- ZeroDur
  EDurs <- ZeroDur
  Rets <- RetsOne
  Advs <- AdvsExact
  Decs <- DecsSleep
  BFaults <- BFaultsNone
  Ras <- RasNone
  Modes = {"exec"}
  RunGaps <- GapsNone
  NRuns = 2
  Configs <- ConfigsC01Small
  RecordHist = TRUE
INVARIANT NoViolation
INVARIANT ExportBehaviours
CHECK_DEADLOCK FALSE
