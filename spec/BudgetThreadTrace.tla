-------------------------- MODULE BudgetThreadTrace --------------------------
(***************************************************************************)
(* Conformance of line-level executions of the real Budget methods         *)
(* (recorded by the thread scheduler: thread, method, line offset) with    *)
(* the PlusCal algorithm BudgetThreads: each logged line of a public       *)
(* method must be the label the algorithm's thread is at; the lines of     *)
(* _prune and the algorithm's unlabelled bookkeeping are internal steps.   *)
(* A trace is accepted when all its lines have been consumed.              *)
(* TRACE_FILE: [{sc: scenario, lines: [[thread, "label"], ...]}]           *)
(***************************************************************************)
EXTENDS Integers, Sequences, FiniteSets, TLC, Json, IOUtils, SequencesExt

CONSTANTS NTraces, NThreads
Traces == JsonDeserialize(IOEnv.TRACE_FILE)

VARIABLES tid, l, sc, events, lock, res, pc, now, cutoff, op, cost, i
Threads == 1..NThreads

\* the deque the concurrent phase starts from: the sequential setup operations applied to the
\* budget model (nothing is read from the implementation's private attributes)
UM == INSTANCE Budget
RECURSIVE After(_, _, _, _)
After(c, q, ops, n) ==
    IF n > Len(ops) THEN q ELSE After(c, UM!UApply(c, q, ops[n].op, ops[n].cost, ops[n].t).q, ops, n + 1)
Scn(n) == LET j == Traces[n].sc
              c == [max |-> j.cfg.max, W |-> j.cfg.W]
          IN  [cfg |-> c, init |-> After(c, UM!UInit, j.setup, 1), clock |-> j.clock, prog |-> j.prog]

BT == INSTANCE BudgetThreads WITH Scenarios <- {Scn(n) : n \in 1..NTraces}, Locked <- TRUE

Internal == {"start", "dispatch", "release", "cprune", "rprune", "consume4a", "remaining2a"}
tvars == <<tid, l>>

Init == /\ tid \in 1..NTraces /\ l = 1 /\ BT!Init /\ sc = Scn(tid)

Consume ==
    /\ l <= Len(Traces[tid].lines)
    /\ LET e == Traces[tid].lines[l] IN
       /\ pc[e[1]] = e[2]
       /\ BT!th(e[1])
    /\ l' = l + 1 /\ UNCHANGED tid
Silent ==
    /\ \E t \in Threads : pc[t] \in Internal /\ BT!th(t)
    /\ UNCHANGED tvars
Next == Consume \/ Silent
Spec == Init /\ [][Next]_<<tid, l, sc, events, lock, res, pc, now, cutoff, op, cost, i>>

Report == (l = Len(Traces[tid].lines) + 1) => PrintT(<<"ACCEPT", tid>>)
=============================================================================
