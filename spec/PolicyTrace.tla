----------------------------- MODULE PolicyTrace -----------------------------
(***************************************************************************)
(* Validation of traces recorded from real Policy / AsyncPolicy objects    *)
(* (sequences of calls sharing one circuit breaker).                       *)
(*   verdict      pm.viol: clauses of PolicyMon (and of RetryMon for the   *)
(*                loop events, and of the Breaker reference) violated;     *)
(*   conformance  conf: first event that is not what PolicyCall (M)        *)
(*                produces for the logged environment choices, 0 if none.  *)
(* TRACE_FILE: JSON array of {cfg: {retry, rc, bc}, ev: [events]}.         *)
(***************************************************************************)
EXTENDS Integers, Sequences, FiniteSets, TLC, Json, IOUtils, SequencesExt

CONSTANT NTraces

Traces == JsonDeserialize(IOEnv.TRACE_FILE)

AllClasses == {"AUTH", "PERMISSION", "PERMANENT", "CONCURRENCY", "RATE_LIMIT", "SERVER_ERROR",
               "TRANSIENT", "UNKNOWN"}

VARIABLES tid, l, pm, p, conf
vars == <<tid, l, pm, p, conf>>

PM == INSTANCE PolicyMon WITH ClassSet <- AllClasses

Cfg(i) == LET j == Traces[i].cfg IN
          [retry |-> j.retry,
           rc |-> [j.rc EXCEPT !.strat = ToSet(j.rc.strat), !.legacy = ToSet(j.rc.legacy),
                               !.adaptive = ToSet(j.rc.adaptive)],
           bc |-> [j.bc EXCEPT !.trip = ToSet(j.bc.trip)],
           \* direct breaker operations: whatever the trace holds at this position
           ext |-> {}, next |-> 1000000]

Cur == Traces[tid].ev[l]
Is(kind) == l <= Len(Traces[tid].ev) /\ Cur.e = kind
CfgAt(i) == [Cfg(i) EXCEPT !.ext = IF Is("ext") THEN {[op |-> Cur.op, k |-> Cur.k]} ELSE {}]
NStart(i) == Cardinality({x \in 1..Len(Traces[i].ev) : Traces[i].ev[x].e = "pstart"})

PC == INSTANCE PolicyCall WITH
        Classes <- AllClasses,
        Outs  <- IF Is("invoke") THEN {[out |-> Cur.out, k |-> Cur.k, ra |-> Cur.ra]} ELSE {},
        Durs  <- IF Is("invoke") THEN {Cur.dur} ELSE {},
        CDurs <- IF Is("classify") \/ Is("rclassify") THEN {Cur.dur} ELSE {},
        EDurs <- IF Is("emit") THEN {Cur.dur} ELSE {},
        Rets  <- IF Is("strategy") THEN {Cur.ret} ELSE {},
        Advs  <- IF Is("sleep") THEN {Cur.adv} ELSE {},
        Decs  <- IF Is("handler") THEN {Cur.dec} ELSE {},
        BFaults <- IF Is("bsleep") THEN {Cur.fault} ELSE {},
        Ras   <- {},
        Modes <- IF Is("pstart") THEN {Cur.mode} ELSE {},
        NCalls <- NStart(tid),
        Gaps  <- IF (Is("pstart") \/ Is("ext")) /\ Cur.at >= p.now THEN {Cur.at - p.now} ELSE {}

Init == /\ tid \in 1..NTraces
        /\ l = 1
        /\ pm = PM!PMInit
        /\ p = PC!PInit(Cfg(tid))
        /\ conf = 0

Step ==
    /\ l <= Len(Traces[tid].ev)
    /\ LET c  == CfgAt(tid)
           e  == Cur
           xs == IF conf = 0 THEN {x \in PC!PStep(c, p) : x[1] = e} ELSE {}
       IN  /\ pm' = PM!PMonStep(c, pm, e)
           /\ IF xs # {} THEN p' = (CHOOSE x \in xs : TRUE)[2] /\ conf' = conf
                         ELSE p' = p /\ conf' = (IF conf = 0 THEN l ELSE conf)
    /\ l' = l + 1
    /\ UNCHANGED tid

Spec == Init /\ [][Step]_vars

Report ==
    (l = Len(Traces[tid].ev) + 1) =>
        PrintT(<<"VERDICT", ToJson([tid |-> tid, viol |-> pm.viol, conf |-> conf])>>)
=============================================================================
