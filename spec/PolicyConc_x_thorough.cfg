SPECIFICATION Spec
CONSTANTS
  NCalls = 4
  MaxNow = 2
  RecordHist = TRUE
  Classes = {"TRANSIENT", "UNKNOWN"}
  CConfigs <- ConfigsConcSmall
  TickSet = {2}
  OutKinds = {"ok", "exc", "cancel"}
INVARIANT OnlyKnownViolations
INVARIANT TypeOK
INVARIANT ExportBehaviours
CHECK_DEADLOCK FALSE
