------------------------------- MODULE Budget -------------------------------
(***************************************************************************)
(* redress.budget.Budget: rolling-window retry budget (C10).               *)
(*                                                                         *)
(*  M  U..  implementation-shaped: the deque of granted-token timestamps,  *)
(*          pruned by popleft while head <= now - W before every           *)
(*          operation; consume(cost) appends `cost` copies of now.         *)
(*  P  G..  property-level: the never-pruned log of every granted token.   *)
(*          A token granted at e is "in the window" at t iff t - e < W.    *)
(*                                                                         *)
(* A configuration is [max : Nat, W : Nat]; times are integer ticks.       *)
(***************************************************************************)
EXTENDS Integers, Sequences, FiniteSets

RECURSIVE PopOld(_, _)
PopOld(q, cutoff) ==
    IF q # <<>> /\ Head(q) <= cutoff THEN PopOld(Tail(q), cutoff) ELSE q

UInit == <<>>

Repeat(x, n) == [i \in 1..n |-> x]

\* consume(cost)
UConsume(c, q, cost, t) ==
    LET q1 == PopOld(q, t - c.W) IN
    IF Len(q1) + cost > c.max
    THEN [q |-> q1, ret |-> 0]
    ELSE [q |-> q1 \o Repeat(t, cost), ret |-> 1]

\* remaining()
URemaining(c, q, t) ==
    LET q1 == PopOld(q, t - c.W)
        n  == c.max - Len(q1)
    IN  [q |-> q1, ret |-> IF n > 0 THEN n ELSE 0]

UApply(c, q, op, cost, t) ==
    IF op = "consume" THEN UConsume(c, q, cost, t) ELSE URemaining(c, q, t)

(***************************************************************************)
(* P                                                                       *)
(***************************************************************************)
GInit == <<>>                       \* grant log: one entry per granted token

InWindow(c, g, t) == Cardinality({i \in 1..Len(g) : t - g[i] < c.W /\ g[i] <= t})

\* expected return value
GExpect(c, g, op, cost, t) ==
    IF op = "consume"
    THEN (IF InWindow(c, g, t) + cost <= c.max THEN 1 ELSE 0)
    ELSE (IF c.max - InWindow(c, g, t) > 0 THEN c.max - InWindow(c, g, t) ELSE 0)

\* the log follows the *observed* grants
GNext(c, g, op, cost, t, ret) ==
    IF op = "consume" /\ ret = 1 THEN g \o Repeat(t, cost) ELSE g

\* the sliding-window bound itself: no interval (e-W, e] ending at a grant holds
\* more than max tokens (an interval of length W holding the most tokens can
\* always be shifted to end at a grant)
WindowBound(c, g) ==
    \A i \in 1..Len(g) :
        Cardinality({j \in 1..Len(g) : g[i] - g[j] < c.W /\ g[j] <= g[i]}) <= c.max

GJudge(c, g, op, cost, t, ret) ==
    LET x  == GExpect(c, g, op, cost, t)
        g1 == GNext(c, g, op, cost, t, ret)
    IN  (IF op = "consume" /\ ret = 1 /\ x = 0 THEN {"C10:over-grant"} ELSE {})
        \cup (IF op = "consume" /\ ret = 0 /\ x = 1 THEN {"C10:refused-although-capacity"} ELSE {})
        \cup (IF op = "consume" /\ ret \notin {0, 1} THEN {"C10:consume-result"} ELSE {})
        \cup (IF op = "remaining" /\ ret # x THEN {"C10:remaining-value"} ELSE {})
        \cup (IF ~WindowBound(c, g1) THEN {"C10:window-bound"} ELSE {})
=============================================================================
