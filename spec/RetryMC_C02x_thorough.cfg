SPECIFICATION Spec
CONSTANTS
  Classes <- Classes4
  Outs <- OutsC02
  Durs = {0, 1, 2, 5}
  CDurs <- ZeroDur
  EDurs <- ZeroDur
  Rets <- RetsC02
  Advs <- AdvsAll
  Decs <- DecsSleep
  BFaults <- BFaultsNone
  Ras <- RasNone
  Modes = {"exec"}
  RunGaps <- GapsNone
  NRuns = 1
  Configs <- ConfigsC02x
  RecordHist = TRUE
INVARIANT NoViolation
INVARIANT ExportBehaviours
CHECK_DEADLOCK FALSE
