----------------------------- MODULE ConcCalls -----------------------------
(***************************************************************************)
(* C07 under concurrency: N policy calls (AsyncPolicy without a retry      *)
(* component, execute()) share one circuit breaker.  A call is atomic      *)
(* between suspension points; its only suspension point is the awaited     *)
(* operation, so a call is two atomic segments:                            *)
(*    Start(i)   [pre-flight abort poll -> record_cancel]  allow()         *)
(*               -> refused: deliver | admitted: suspended in operation    *)
(*    Finish(i)  operation ends (value / failure of class k / abort /      *)
(*               cancellation thrown in) -> settlement -> deliver          *)
(* interleaved arbitrarily with the segments of other calls and with       *)
(* clock advances.                                                         *)
(*                                                                         *)
(* M: the shared breaker is Breaker!BApply (the code: settlements are      *)
(*    anonymous).  P: the Breaker reference judges every breaker operation *)
(*    in the global order, and an identity-aware monitor states C07's      *)
(*    concurrency clause: while the call admitted as half-open probe has   *)
(*    not recorded its result, no other call is admitted.                  *)
(* M does NOT satisfy that clause: a straggler admitted while the circuit  *)
(* was closed, or the pre-flight abort of a non-admitted call, can settle  *)
(* the breaker during another call's probe (finding F6).  The monitor names*)
(* how the second admission came about, so exactly those two ways are      *)
(* known findings and anything else is a violation.                        *)
(***************************************************************************)
EXTENDS Integers, Sequences, FiniteSets, TLC

CONSTANTS NCalls, MaxNow, Classes, TickSet, OutKinds

B == INSTANCE Breaker WITH ClassSet <- Classes

AllOuts == {[out |-> "ok", k |-> "-"], [out |-> "exc", k |-> "TRANSIENT"], [out |-> "exc", k |-> "UNKNOWN"],
            [out |-> "abort", k |-> "-"], [out |-> "cancel", k |-> "-"]}
Outs == {o \in AllOuts : o.out \in OutKinds /\ (o.k = "UNKNOWN" => "excU" \in OutKinds)}

(***************************************************************************)
(* P: identity-aware monitor                                               *)
(***************************************************************************)
PMInit == [viol |-> {}, r |-> B!RInit,
           probe |-> 0,            \* call admitted as half-open probe whose result is outstanding
           disturbed |-> "-",      \* how the probe episode was disturbed, if it was
           admitted |-> {}, refused |-> {}, recorded |-> {},
           outs |-> {}]            \* how the operation of each call ended: [i, out, k]

V(m, cond, name) == IF cond THEN m ELSE [m EXCEPT !.viol = @ \cup {name}]

BreakerOp(c, m, op, k, at, allowed, bev, state) ==
    [m EXCEPT !.viol = @ \cup B!RJudge(c.bc, m.r, op, k, at, allowed, bev, state),
              !.r = B!RNext(c.bc, m.r, op, k, at, allowed, state)]

OnAllow(c, m, e) ==
    LET m1 == BreakerOp(c, m, "allow", "-", e.at, e.allowed, e.ev, e.state)
        second == e.allowed /\ m.probe # 0
        m2 == IF ~second THEN m1
              ELSE V(m1, FALSE,
                     IF m.disturbed = "straggler" THEN "C07:second-admission-after-straggler-settled-during-probe"
                     ELSE IF m.disturbed = "preflight" THEN "C07:second-admission-after-preflight-abort-cancel-during-probe"
                     ELSE "C07:second-admission-while-probe-outstanding")
        isProbe == e.allowed /\ e.state = "half"
    IN  [m2 EXCEPT !.admitted = IF e.allowed THEN @ \cup {e.i} ELSE @,
                   !.refused = IF e.allowed THEN @ ELSE @ \cup {e.i},
                   !.probe = IF isProbe /\ m.probe = 0 THEN e.i ELSE @]

\* C09 under concurrency: the record of a call is decided by the outcome of its own operation,
\* whatever other calls (even ones that raised the very same exception object) did meanwhile
Matches(x, e) ==
    CASE x.out = "ok"  -> e.op = "ok"
      [] x.out = "exc" -> e.op = "fail" /\ e.k = x.k
      [] OTHER         -> e.op = "cancel"

OnRec(c, m, e) ==
    LET m1 == BreakerOp(c, m, e.op, e.k, e.at, TRUE, e.ev, e.state)
        m0 == V(m1, \A x \in m.outs : x.i = e.i => Matches(x, e),
                "C09:record-does-not-match-the-calls-own-outcome")
        m2 == V(m0, e.i \notin m.refused, "C07:rejected-call-recorded-with-breaker")
        other == m.probe # 0 /\ e.i # m.probe
    IN  [m2 EXCEPT !.recorded = @ \cup {e.i},
                   !.probe = IF e.i = m.probe THEN 0 ELSE @,
                   !.disturbed = IF e.i = m.probe THEN "-"
                                 ELSE IF other /\ m.disturbed = "-"
                                      THEN (IF e.i \in m.admitted THEN "straggler" ELSE "preflight")
                                 ELSE @]

OnInvoke(c, m, e) ==
    LET m1 == V(V(m, e.i \notin m.refused, "C07:operation-invoked-by-rejected-call"),
                e.i \in m.admitted, "C07:operation-invoked-before-admission")
    IN  [m1 EXCEPT !.outs = @ \cup {[i |-> e.i, out |-> e.out, k |-> e.k]}]

PMonStep(c, m, e) ==
    CASE e.e = "cprobe"  ->
            \* C08: every call is over and recovery_timeout_s has elapsed since: the next call is admitted
            V(m, e.allowed, "C08:next-call-rejected-after-recovery-timeout")
      [] e.e = "callow"  -> OnAllow(c, m, e)
      [] e.e = "crec"    -> OnRec(c, m, e)
      [] e.e = "cinvoke" -> OnInvoke(c, m, e)
      [] OTHER -> m

(***************************************************************************)
(* M as a pure step operator: CStep(c, st) = set of <<event, st'>>,        *)
(* st = [b, now, calls]                                                    *)
(***************************************************************************)
CInit == [b |-> B!BInit, now |-> 0, calls |-> [i \in 1..NCalls |-> [ph |-> "new"]]]

\* calls are interchangeable: they start in index order (symmetry reduction)
MayStart(st, i) == st.calls[i].ph = "new" /\ \A j \in 1..(i - 1) : st.calls[j].ph # "new"
Settling(st) == \E j \in 1..NCalls : st.calls[j].ph = "settle"

\* pre-flight abort (check_abort_no_retry): record_cancel before the breaker is asked
PreAbort(c, st, i) ==
    IF MayStart(st, i) /\ c.abort /\ ~Settling(st) THEN
        LET res == B!BRecCancel(c.bc, st.b) IN
        { <<[e |-> "crec", i |-> i, op |-> "cancel", k |-> "-", ev |-> res.ev, state |-> res.b.st,
             at |-> st.now, pre |-> TRUE],
            [st EXCEPT !.b = res.b, !.calls[i] = [ph |-> "done"]]>> }
    ELSE {}

Admit(c, st, i) ==
    IF MayStart(st, i) /\ ~Settling(st) THEN
        LET res == B!BAllow(c.bc, st.b, st.now) IN
        { <<[e |-> "callow", i |-> i, allowed |-> res.allowed, ev |-> res.ev, state |-> res.b.st,
             at |-> st.now],
            [st EXCEPT !.b = res.b,
                       !.calls[i] = [ph |-> IF res.allowed THEN "running" ELSE "done"]]>> }
    ELSE {}

\* the awaited operation ends ...
Invoke(c, st, i) ==
    IF st.calls[i].ph = "running" /\ ~Settling(st) THEN
        { <<[e |-> "cinvoke", i |-> i, out |-> o.out, k |-> o.k],
            [st EXCEPT !.calls[i] = [ph |-> "settle", out |-> o.out, k |-> o.k]]>> : o \in Outs }
    ELSE {}

\* ... and is settled in the same atomic segment
Settle(c, st, i) ==
    IF st.calls[i].ph = "settle" THEN
        LET cl  == st.calls[i]
            op  == IF cl.out = "ok" THEN "ok" ELSE IF cl.out = "exc" THEN "fail" ELSE "cancel"
            res == B!BApply(c.bc, st.b, op, cl.k, st.now)
        IN  { <<[e |-> "crec", i |-> i, op |-> op, k |-> cl.k, ev |-> res.ev, state |-> res.b.st,
                 at |-> st.now, pre |-> FALSE],
                [st EXCEPT !.b = res.b, !.calls[i] = [ph |-> "done"]]>> }
    ELSE {}

Tick(c, st) ==
    IF ~Settling(st) THEN
        { <<[e |-> "ctick", at |-> st.now + d], [st EXCEPT !.now = st.now + d]>> :
              d \in {x \in TickSet : st.now + x <= MaxNow} }
    ELSE {}

CStep(c, st) ==
    UNION { PreAbort(c, st, i) \cup Admit(c, st, i) \cup Invoke(c, st, i) \cup Settle(c, st, i) :
              i \in 1..NCalls } \cup Tick(c, st)
=============================================================================
