SPECIFICATION Spec
CONSTANTS
  Classes <- Classes4
  Outs <- OutsC13
  Durs = {0}
  CDurs <- ZeroDur
  EDurs <- ZeroDur
  Rets <- RetsOne
  Advs <- AdvsC13
  Decs <- DecsAll
  BFaults <- BFaultsAll
  Ras <- RasNone
  Modes = {"call", "exec"}
  RunGaps <- GapsNone
  NRuns = 1
  Configs <- ConfigsC13T
  RecordHist = TRUE
INVARIANT NoViolation
INVARIANT ExportBehaviours
CHECK_DEADLOCK FALSE
