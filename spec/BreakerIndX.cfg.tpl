SPECIFICATION Spec
CONSTANTS
  Thr = @THR@
  W = @W@
  R = @R@
  CThr = @CTHR@
  KTrip = @KTRIP@
  Times <- BoundedTimes
CONSTRAINT Depth
INVARIANT IndInv
PROPERTY StepIsBApply
PROPERTY VerdictIsRJudge
CHECK_DEADLOCK FALSE
