------------------------------- MODULE CapsInd -------------------------------
(***************************************************************************)
(* C01 at design level, symbolically (Apalache): the counters of the retry *)
(* loop (_RetryState: attempt number, per_class_counts, unknown_attempts;  *)
(* RetryLoop.tla: NotedFor / EarlyStop / LateStop) against what C01 says,  *)
(* for ARBITRARY max_attempts, per-class caps and UNKNOWN cap - TLC checks *)
(* max_attempts <= 4 only.                                                 *)
(*                                                                         *)
(* Classes: "T", "R" retryable, "U" = UNKNOWN, "P" = the non-retryable     *)
(* classes.  A cap of -1 means "not configured".  Every other reason to    *)
(* stop (deadline, no strategy, budget, handler, abort, cancellation) is   *)
(* the environment's choice here: the loop MAY always stop, it MAY go on   *)
(* only if the counters allow it.                                          *)
(*                                                                         *)
(* P (ghost variables, what C01 talks about): inv = invocations of the     *)
(* operation in this run, g[k] = invocations that directly followed a      *)
(* failure of class k (retries granted after k), bad = an invocation       *)
(* happened after a non-retryable failure.  Claims == the four clauses.    *)
(*                                                                         *)
(* The counter operators are bound to RetryLoop.tla by the TLC cross-check *)
(* CapsIndX.tla (same values on a grid of counters and caps).              *)
(***************************************************************************)
EXTENDS Integers, FiniteSets

CONSTANTS
    \* @type: Int;
    MaxAtt,
    \* @type: Int;
    MaxUnk,
    \* @type: Int;
    LimT,
    \* @type: Int;
    LimR,
    \* @type: Int;
    LimU,
    \* @type: Int;
    LimP

VARIABLES
    \* @type: Int;
    att,
    \* @type: Str -> Int;
    cnt,
    \* @type: Int;
    unk,
    \* @type: Str;
    lk,
    \* @type: Str;
    phase,
    \* @type: Int;
    inv,
    \* @type: Str -> Int;
    g,
    \* @type: Bool;
    nonretry,
    \* @type: Bool;
    bad

Cls == {"T", "R", "U", "P"}
ConstInit == /\ MaxAtt \in Nat
             /\ MaxUnk \in Int /\ MaxUnk >= -1
             /\ LimT \in Int /\ LimT >= -1 /\ LimR \in Int /\ LimR >= -1
             /\ LimU \in Int /\ LimU >= -1 /\ LimP \in Int /\ LimP >= -1

Lim(k) == IF k = "T" THEN LimT ELSE IF k = "R" THEN LimR ELSE IF k = "U" THEN LimU ELSE LimP

\* ---- the counter logic, with the caps as parameters (shared with CapsIndX) ----
CappedP(lim, c1) == lim # -1 /\ c1 > lim                  \* c1: the class count after this failure
NoteUnkP(lim, k, c1, u) == IF k = "U" /\ ~CappedP(lim, c1) THEN u + 1 ELSE u
EarlyMustP(lim, maxunk, k, c1, u1) ==
    CappedP(lim, c1) \/ k = "P" \/ (k = "U" /\ maxunk # -1 /\ u1 > maxunk)
LateMustP(maxatt, a) == a >= maxatt

Capped(k, c1) == CappedP(Lim(k), c1)
MustStop(k, c1, u1, a) == EarlyMustP(Lim(k), MaxUnk, k, c1, u1) \/ LateMustP(MaxAtt, a)

Zero == [k \in Cls |-> 0]

Init == /\ att = 1 /\ cnt = Zero /\ unk = 0 /\ lk = "-" /\ inv = 0 /\ g = Zero
        /\ nonretry = FALSE /\ bad = FALSE
        /\ phase = IF MaxAtt = 0 THEN "stopped" ELSE "top"

Invoke ==
    /\ phase = "top"
    /\ inv' = inv + 1
    /\ g' = IF lk = "-" THEN g ELSE [g EXCEPT ![lk] = @ + 1]
    /\ bad' = (bad \/ nonretry)
    /\ phase' = "running"
    /\ UNCHANGED <<att, cnt, unk, lk, nonretry>>

\* success, abort or a cancellation-type outcome: the run ends
End ==
    /\ phase \in {"top", "running", "decide"}
    /\ phase' = "stopped"
    /\ UNCHANGED <<att, cnt, unk, lk, inv, g, nonretry, bad>>

\* a classified failure of class k: _handle_failure updates the counters
Note(k) ==
    /\ phase = "running"
    /\ LET c1 == cnt[k] + 1 IN
       /\ cnt' = [cnt EXCEPT ![k] = c1]
       /\ unk' = NoteUnkP(Lim(k), k, c1, unk)
    /\ lk' = k
    /\ nonretry' = (nonretry \/ k = "P")
    /\ phase' = "decide"
    /\ UNCHANGED <<att, inv, g, bad>>

\* the loop goes on only if the counters allow it
Retry ==
    /\ phase = "decide"
    /\ ~MustStop(lk, cnt[lk], unk, att)
    /\ att' = att + 1
    /\ phase' = "top"
    /\ UNCHANGED <<cnt, unk, lk, inv, g, nonretry, bad>>

\* the next call on the same policy object starts from fresh counters
NewRun ==
    /\ phase = "stopped"
    /\ att' = 1 /\ cnt' = Zero /\ unk' = 0 /\ lk' = "-" /\ inv' = 0 /\ g' = Zero
    /\ nonretry' = FALSE /\ bad' = FALSE
    /\ phase' = IF MaxAtt = 0 THEN "stopped" ELSE "top"

Next == Invoke \/ End \/ (\E k \in Cls : Note(k)) \/ Retry \/ NewRun

\* ---- C01 ----------------------------------------------------------------
Claims ==
    /\ inv <= MaxAtt
    /\ ~bad
    /\ \A k \in Cls : Lim(k) # -1 => g[k] <= Lim(k)
    /\ MaxUnk # -1 => g["U"] <= MaxUnk

Others(k) == \A j \in Cls : j # k => cnt[j] = g[j]

IndInv ==
    /\ Claims
    /\ att >= 1 /\ unk >= 0 /\ inv >= 0
    /\ \A k \in Cls : cnt[k] >= 0 /\ g[k] >= 0
    /\ phase \in {"top", "running", "decide", "stopped"}
    /\ lk \in Cls \cup {"-"}
    /\ (MaxAtt = 0) => (phase = "stopped" /\ inv = 0)
    /\ (phase = "top") =>
          /\ inv = att - 1 /\ att <= MaxAtt /\ ~nonretry
          /\ (att = 1) => (lk = "-" /\ cnt = Zero /\ g = Zero /\ unk = 0)
          /\ (att > 1) => /\ lk \in Cls /\ lk # "P"
                          /\ cnt[lk] = g[lk] + 1 /\ Others(lk)
                          /\ ~Capped(lk, cnt[lk])
                          /\ unk = cnt["U"]
                          /\ (MaxUnk # -1 /\ lk = "U") => unk <= MaxUnk
    /\ (phase = "running") =>
          /\ inv = att /\ att <= MaxAtt /\ ~nonretry
          /\ \A k \in Cls : cnt[k] = g[k]
          /\ unk = cnt["U"]
    /\ (phase = "decide") =>
          /\ inv = att /\ att <= MaxAtt
          /\ lk \in Cls /\ cnt[lk] = g[lk] + 1 /\ Others(lk)
          /\ nonretry = (lk = "P")
          /\ unk = IF lk = "U" /\ Capped("U", cnt["U"]) THEN cnt["U"] - 1 ELSE cnt["U"]
=============================================================================
