SPECIFICATION Spec
CONSTANTS
  Classes <- Classes4
  Outs <- OutsC05
  Durs = {0}
  CDurs <- ZeroDur
  EDurs <- ZeroDur
  Rets <- RetsAll
  Advs <- AdvsExact
  Decs <- DecsAll
  BFaults <- BFaultsNone
  Ras <- RasSome
  Modes = {"call", "exec"}
  RunGaps <- GapsNone
  NRuns = 1
  Configs <- ConfigsC05T
  RecordHist = FALSE
INVARIANT NoViolation
INVARIANT AttemptsBounded
INVARIANT InvokeWithinDeadline
INVARIANT SleepWithinRemaining
INVARIANT DeliveriesRelated
CHECK_DEADLOCK FALSE
