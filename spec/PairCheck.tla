------------------------------ MODULE PairCheck ------------------------------
(***************************************************************************)
(* C12, call() vs execute(): for one scenario executed through a call-     *)
(* style and an execute-style entry point of the real library, the two     *)
(* deliveries must be related by RetryLoop!Related (the call-style         *)
(* delivery is CallOfExec of the RetryOutcome).  TRACE_FILE: JSON array of *)
(* {call: view, exec: view}.                                               *)
(***************************************************************************)
EXTENDS Integers, Sequences, FiniteSets, TLC, Json, IOUtils

CONSTANT NTraces
Traces == JsonDeserialize(IOEnv.TRACE_FILE)

L == INSTANCE RetryLoop WITH Classes <- {}, Outs <- {}, Durs <- {}, CDurs <- {}, EDurs <- {}, Rets <- {}, Advs <- {},
        Decs <- {}, BFaults <- {}, Ras <- {}, Modes <- {}, NRuns <- 1, RunGaps <- {}

VARIABLES tid, l
vars == <<tid, l>>
Init == tid \in 1..NTraces /\ l = 1
Step == l = 1 /\ l' = 2 /\ UNCHANGED tid
Spec == Init /\ [][Step]_vars

Report ==
    (l = 2) =>
        PrintT(<<"VERDICT", ToJson([tid |-> tid,
                 viol |-> IF L!Related(Traces[tid].call, Traces[tid].exec) THEN {}
                          ELSE {"C12:call-and-execute-deliver-different-results"},
                 conf |-> 0])>>)
=============================================================================
