SPECIFICATION Spec
CONSTANTS
  Classes <- Classes4
  Outs <- OutsC10
  Durs = {1}
  CDurs <- ZeroDur
  EDurs <- ZeroDur
  Rets <- RetsTwoSmall
  Advs <- AdvsTwo
  Decs <- DecsSleep
  BFaults <- BFaultsNone
  Ras <- RasNone
  Modes = {"exec"}
  RunGaps <- GapsC10
  NRuns = 3
  Configs <- ConfigsC10
  RecordHist = FALSE
INVARIANT NoViolation
INVARIANT AttemptsBounded
INVARIANT InvokeWithinDeadline
INVARIANT SleepWithinRemaining
INVARIANT DeliveriesRelated
CHECK_DEADLOCK FALSE
