SPECIFICATION Spec
CONSTANTS
  Threads = {1, 2}
  Scenarios <- AllScenarios
  Locked = FALSE
INVARIANT MutualExclusion
INVARIANT Linearizable
INVARIANT NoOverGrant
