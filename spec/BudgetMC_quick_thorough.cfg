SPECIFICATION Spec
CONSTANTS
  MaxNow = 14
  MaxDepth = 11
  Export = FALSE
  Profile = "full"
CONSTRAINT DepthBound

INVARIANT NoViolation
INVARIANT Bound
INVARIANT DequeIsWindow
INVARIANT PopOldIsSelect
PROPERTY CapacityReturns
CHECK_DEADLOCK FALSE
