----------------------------- MODULE PolicyConc -----------------------------
(***************************************************************************)
(* Model-checking wrapper for ConcCalls.tla (C07 under concurrency):       *)
(* all interleavings of NCalls policy calls sharing one breaker.           *)
(* OnlyKnownViolations: M |= P except for the two known ways in which a    *)
(* second call is admitted while a probe is outstanding (finding F6).      *)
(***************************************************************************)
EXTENDS ConcCalls, Json, SequencesExt

CONSTANTS RecordHist, CConfigs

VARIABLES cid, st, ev, hist, pm
vars == <<cid, st, ev, hist, pm>>

CfgSeq == SetToSeq(CConfigs)
cfg == CfgSeq[cid]            \* [bc : breaker configuration, abort : BOOLEAN]
ASSUME PrintT(<<"CONFIGS", ToJson(CfgSeq)>>)

Init == /\ cid \in 1..Len(CfgSeq) /\ st = CInit
        /\ ev = [e |-> "start"] /\ hist = <<>> /\ pm = PMInit
Next == \E x \in CStep(cfg, st) :
            /\ ev' = x[1] /\ st' = x[2]
            /\ hist' = IF RecordHist THEN Append(hist, x[1]) ELSE hist
            /\ pm' = PMonStep(cfg, pm, x[1])
            /\ UNCHANGED cid
Spec == Init /\ [][Next]_vars

Known == {"C07:second-admission-after-straggler-settled-during-probe",
          "C07:second-admission-after-preflight-abort-cancel-during-probe"}
OnlyKnownViolations == pm.viol \subseteq Known
TypeOK == B!BTypeOK(cfg.bc, st.b)

Terminal == \A i \in 1..NCalls : st.calls[i].ph = "done"
ExportBehaviours ==
    (RecordHist /\ Terminal) => PrintT(<<"BEH", ToJson([c |-> cid, h |-> hist, viol |-> pm.viol])>>)

NoThr == [k \in Classes |-> 0]
ConfigsConcSmall == { [bc |-> [thr |-> 1, W |-> 8, R |-> 2, trip |-> {"TRANSIENT"}, cthr |-> NoThr],
                       abort |-> ab] : ab \in BOOLEAN }
ConfigsConc == { [bc |-> [thr |-> th, W |-> 8, R |-> 2, trip |-> {"TRANSIENT"}, cthr |-> NoThr],
                  abort |-> ab] : th \in {1, 2}, ab \in BOOLEAN }
=============================================================================
