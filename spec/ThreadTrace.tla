----------------------------- MODULE ThreadTrace -----------------------------
(***************************************************************************)
(* Conformance of line-level executions of the real CircuitBreaker methods *)
(* (recorded by the thread scheduler: thread, method, line offset) with    *)
(* the PlusCal algorithm BreakerThreads: each logged line of a public      *)
(* method must be the label the algorithm's thread is at; lines of the     *)
(* private helpers and the algorithm's unlabelled bookkeeping are internal *)
(* steps.  A trace is accepted when all its lines have been consumed.      *)
(* TRACE_FILE: [{sc: scenario, lines: [[thread, "label"], ...]}]           *)
(***************************************************************************)
EXTENDS Integers, Sequences, FiniteSets, TLC, Json, IOUtils, SequencesExt

CONSTANTS NTraces, NThreads
Traces == JsonDeserialize(IOEnv.TRACE_FILE)

VARIABLES tid, l, sc, st, openedAt, probe, fails, lock, res, pc, now, opened_at, should_open, cutoff, op, k
Threads == 1..NThreads

\* the state the concurrent phase starts from: the sequential setup operations applied to the
\* breaker model (nothing is read from the implementation's private attributes)
BM == INSTANCE Breaker WITH ClassSet <- {"TRANSIENT", "UNKNOWN"}
CfgOf(j) == [thr |-> j.cfg.thr, W |-> j.cfg.W, R |-> j.cfg.R, trip |-> ToSet(j.cfg.trip),
             cthr |-> [c \in {"TRANSIENT", "UNKNOWN"} |-> 0]]
RECURSIVE After(_, _, _, _)
After(c, b, ops, n) ==
    IF n > Len(ops) THEN b ELSE After(c, BM!BApply(c, b, ops[n].op, ops[n].k, ops[n].t).b, ops, n + 1)
InitOf(j) == LET b == After(CfgOf(j), BM!BInit, j.setup, 1)
             IN  [st |-> b.st, openedAt |-> b.openedAt, probe |-> b.probe, fails |-> b.fails]
Scn(i) == LET j == Traces[i].sc IN
          [cfg |-> CfgOf(j), init |-> InitOf(j), clock |-> j.clock, prog |-> j.prog]

BT == INSTANCE BreakerThreads WITH Scenarios <- {Scn(i) : i \in 1..NTraces}, Locked <- TRUE

Internal == {"start", "dispatch", "release", "prune", "note2", "note15", "record_cancel4",
             "allow2a", "record_success1a", "record_failure2a", "record_cancel1a"}
tvars == <<tid, l>>

Init == /\ tid \in 1..NTraces /\ l = 1 /\ BT!Init /\ sc = Scn(tid)

Consume ==
    /\ l <= Len(Traces[tid].lines)
    /\ LET e == Traces[tid].lines[l] IN
       /\ pc[e[1]] = e[2]
       /\ BT!th(e[1])
    /\ l' = l + 1 /\ UNCHANGED tid
Silent ==
    /\ \E t \in Threads : pc[t] \in Internal /\ BT!th(t)
    /\ UNCHANGED tvars
Next == Consume \/ Silent
Spec == Init /\ [][Next]_<<tid, l, sc, st, openedAt, probe, fails, lock, res, pc, now, opened_at, should_open, cutoff, op, k>>

Report == (l = Len(Traces[tid].lines) + 1) => PrintT(<<"ACCEPT", tid>>)
=============================================================================
