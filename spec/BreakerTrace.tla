---------------------------- MODULE BreakerTrace ----------------------------
(***************************************************************************)
(* Validation of traces recorded from the real CircuitBreaker.             *)
(*                                                                         *)
(* TRACE_FILE (environment) is a JSON array of                             *)
(*   {cfg: {thr, W, R, trip: [class], cthr: {class: n}},                   *)
(*    ev:  [{op, k, t, allowed, ev, state}, ...]}                          *)
(* One initial state per trace; each step consumes one logged operation.   *)
(*   verdict      viol = clauses of the reference P (Breaker!RJudge) that  *)
(*                the observation contradicts;                             *)
(*   conformance  conf = index of the first operation whose observation    *)
(*                differs from what M (Breaker!BApply) computes, 0 if none *)
(* A VERDICT line is printed when a trace has been consumed completely.    *)
(***************************************************************************)
EXTENDS Breaker, Json, IOUtils, TLC, SequencesExt

CONSTANT NTraces

Traces == JsonDeserialize(IOEnv.TRACE_FILE)

VARIABLES tid, l, b, r, viol, first, conf
vars == <<tid, l, b, r, viol, first, conf>>

Cfg(i) == LET j == Traces[i].cfg IN
          [thr |-> j.thr, W |-> j.W, R |-> j.R, trip |-> ToSet(j.trip), cthr |-> j.cthr]

Init == /\ tid \in 1..NTraces
        /\ l = 1
        /\ b = BInit
        /\ r = RInit
        /\ viol = {}
        /\ first = 0
        /\ conf = 0

Step ==
    /\ l <= Len(Traces[tid].ev)
    /\ LET c    == Cfg(tid)
           e    == Traces[tid].ev[l]
           res  == BApply(c, b, e.op, e.k, e.t)
           same == res.allowed = e.allowed /\ res.ev = e.ev /\ res.b.st = e.state
           j    == RJudge(c, r, e.op, e.k, e.t, e.allowed, e.ev, e.state)
       IN  /\ viol'  = viol \cup j
           /\ first' = IF first = 0 /\ j # {} THEN l ELSE first
           /\ r'     = RNext(c, r, e.op, e.k, e.t, e.allowed, e.state)
           /\ b'     = res.b
           /\ conf'  = IF conf = 0 /\ ~same THEN l ELSE conf
    /\ l' = l + 1
    /\ UNCHANGED tid

Spec == Init /\ [][Step]_vars

Report ==
    (l = Len(Traces[tid].ev) + 1) =>
        PrintT(<<"VERDICT", ToJson([tid |-> tid, viol |-> viol, first |-> first, conf |-> conf])>>)
=============================================================================
