SPECIFICATION Spec
CONSTANTS
  Classes <- Classes4
  Outs <- OutsHang
  Durs = {0, 1}
  CDurs <- ZeroDur
  EDurs <- ZeroDur
  Rets <- RetsOne
  Advs <- AdvsExact
  Decs <- DecsAll
  BFaults <- BFaultsNone
  Ras <- RasNone
  Modes = {"call", "exec"}
  RunGaps <- GapsNone
  NRuns = 1
  Configs <- ConfigsHangT
  RecordHist = TRUE
INVARIANT NoViolation
INVARIANT AttemptsBounded
INVARIANT InvokeWithinDeadline
INVARIANT SleepWithinRemaining
INVARIANT DeliveriesRelated
INVARIANT ExportBehaviours
CHECK_DEADLOCK FALSE
