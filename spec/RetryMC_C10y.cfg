SPECIFICATION Spec
CONSTANTS
  Classes <- Classes4
  Outs <- OutsC10
  Durs = {1}
  CDurs <- ZeroDur
  EDurs <- ZeroDur
  Rets <- RetsWin
  Advs <- AdvsTwo
  Decs <- DecsSleep
  BFaults <- BFaultsNone
  Ras <- RasNone
  Modes = {"exec"}
  RunGaps <- GapsC10y
  NRuns = 2
  Configs <- ConfigsC10y
  RecordHist = TRUE
INVARIANT NoViolation
INVARIANT ExportBehaviours
CHECK_DEADLOCK FALSE
