SPECIFICATION Spec
CONSTANTS
  Classes <- Classes4
  Outs <- OutsC04
  Durs = {0, 2}
  CDurs <- ZeroDur
  EDurs <- ZeroDur
  Rets <- RetsOne
  Advs <- AdvsExact
  Decs <- DecsAll
  BFaults <- BFaultsNone
  Ras <- RasNone
  Modes = {"exec"}
  RunGaps <- GapsNone
  NRuns = 2
  Configs <- ConfigsC11T
  RecordHist = FALSE
INVARIANT NoViolation
INVARIANT AttemptsBounded
INVARIANT InvokeWithinDeadline
INVARIANT SleepWithinRemaining
INVARIANT DeliveriesRelated
CHECK_DEADLOCK FALSE
