SPECIFICATION Spec
CONSTANTS
  ClassSet = {"A", "B", "C"}
  MaxNow = 24
  MaxDepth = 16
  Export = TRUE
  Profile = "quick"
ACTION_CONSTRAINT ExportEdge
INVARIANT NoViolation
CHECK_DEADLOCK FALSE
