----------------------------- MODULE PolicyCall -----------------------------
(***************************************************************************)
(* M for Policy / AsyncPolicy .call() and .execute(), with and without a   *)
(* retry component, in front of a circuit breaker                          *)
(* (policy/policy.py, policy/async_policy.py, policy/execution.py).        *)
(*                                                                         *)
(* One policy call:                                                        *)
(*   [no retry, abort_if given] pre-flight poll -> True: record_cancel,    *)
(*                                                 deliver abort           *)
(*   allow() -> breaker event (if any) -> refused: deliver rejection       *)
(*   admitted:                                                             *)
(*     with retry    the retry loop (RetryLoop!MStep) runs to its delivery *)
(*                   point, then exactly one settlement by final outcome   *)
(*     without retry one invocation, then exactly one settlement; with     *)
(*                   attempt hooks: on_attempt_start before it, and        *)
(*                   on_attempt_end BEFORE the settlement in call() but    *)
(*                   AFTER it (and its breaker event) in execute()         *)
(*   settlement = record_success | record_failure(k) | record_cancel,      *)
(*                followed by the breaker event it returned (if any)       *)
(*   deliver.                                                              *)
(* Every exit of an admitted call settles the breaker: the recording paths *)
(* of the except ladders, or ensure_settled() in the finally block         *)
(* (cancel).  Differences between call() and execute() that the code has   *)
(* are modelled as they are (SettleKind).                                  *)
(*                                                                         *)
(* Times: `at` is absolute (ticks), the loop's own events carry `t`        *)
(* relative to the start of the call.                                      *)
(***************************************************************************)
EXTENDS Integers, Sequences, FiniteSets, TLC

CONSTANTS Classes, Outs, Durs, CDurs, EDurs, Rets, Advs, Decs, BFaults, Ras, Modes,
          NCalls,       \* policy calls per behaviour
          Gaps          \* clock advances between calls

L == INSTANCE RetryLoop WITH NRuns <- 1, RunGaps <- {0}
B == INSTANCE Breaker WITH ClassSet <- Classes

None == -1

(***************************************************************************)
(* policy configuration pc: [retry : BOOLEAN, rc : retry configuration,    *)
(*                           bc : breaker configuration,                   *)
(*                           ext : direct breaker operations [op, k] that  *)
(*                                 other users of the shared breaker may   *)
(*                                 perform between policy calls,           *)
(*                           next : how many of them at most]              *)
(* policy state p                                                          *)
(***************************************************************************)
PInit(pc) == [ph |-> "idle", ncall |-> 0, now |-> 0, t0 |-> 0,
              b |-> B!BInit, s |-> L!SInit(pc.rc), mode |-> "-",
              bev |-> "-", bk |-> "-", view |-> [kind |-> "-"], out |-> "-", outk |-> "-",
              next |-> 0,        \* direct breaker operations performed so far
              post |-> FALSE]    \* execute() without retry: on_attempt_end follows the settlement

EvAllow(allowed, bev, state, at) ==
    [e |-> "allow", allowed |-> allowed, ev |-> bev, state |-> state, at |-> at]
EvRec(op, k, bev, state, at) ==
    [e |-> "rec", op |-> op, k |-> k, ev |-> bev, state |-> state, at |-> at]
EvBEmit(name, k, state, op, t) ==
    [e |-> "emit", name |-> name, n |-> 0, sleep |-> 0, k |-> k, err |-> FALSE, stop |-> "-",
     cause |-> "-", ra |-> None, op |-> op, dur |-> 0, t |-> t, state |-> state]
EvPrePoll(ans) == [e |-> "prepoll", ans |-> ans]
EvPDeliver(mode, v) == [e |-> "pdeliver", mode |-> mode, v |-> v]

StateName(st) == st

(***************************************************************************)
(* How the finished retry run is settled.  Returns <<op, class>>.          *)
(***************************************************************************)
FailClass(s) == IF s.lk = "-" THEN "UNKNOWN" ELSE s.lk

SettleWithRetry(mode, s) ==
    IF mode = "call" THEN
        CASE s.dkind = "ok"    -> <<"ok", "-">>
          [] s.dkind = "stop"  -> <<"fail", FailClass(s)>>
          [] s.dkind = "abort" -> <<"cancel", "-">>
          [] s.dkind = "zero"  -> <<"fail", "UNKNOWN">>
          [] s.dkind = "cancel" /\ s.cout = "nested" -> <<"fail", "UNKNOWN">>
          [] OTHER             -> <<"cancel", "-">>
    ELSE
        CASE s.dkind = "ok"    -> <<"ok", "-">>
          [] s.dkind = "stop"  -> <<"fail", FailClass(s)>>
          [] s.dkind = "abort" -> <<"cancel", "-">>
          [] s.dkind = "zero"  -> <<"fail", "UNKNOWN">>
          [] s.dkind = "cancel" /\ s.cout = "nested" -> <<"fail", "UNKNOWN">>   \* as call() does
          [] OTHER             -> <<"cancel", "-">>     \* escaped retry.execute(): finally net

\* call(): an exception-caused stop re-raises the operation's exception, which
\* _handle_exception_call classifies once more with the retry's classifier
NeedsBClassify(mode, s) ==
    mode = "call" /\ s.dkind = "stop" /\ s.lcause = "exception" /\ s.stop # "SCHEDULED"

(***************************************************************************)
(* Views delivered by the policy level                                     *)
(***************************************************************************)
PView(kind, id, ok, stop, attempts, lastk, cause, lexc, lres, next, own) ==
    L!View(kind, id, ok, stop, attempts, lastk, cause, lexc, lres, next, own)

RejectedView(mode, st) ==
    IF mode = "call"
    THEN PView("circuit-open:" \o st, None, FALSE, "-", None, "-", "-", None, None, None, FALSE)
    ELSE PView("outcome-rejected:" \o st, None, FALSE, "-", 0, "-", "-", None, None, None, FALSE)

PreAbortView(mode) ==
    IF mode = "call"
    THEN PView("abort", None, FALSE, "-", None, "-", "-", None, None, None, FALSE)
    ELSE PView("outcome", None, FALSE, "ABORTED", 0, "-", "-", None, None, None, FALSE)

\* no retry component: policy/execution.py outcome builders, call() re-raises
NoRetryView(mode, out, k) ==
    IF mode = "call" THEN
        CASE out \in {"ok", "res"} -> PView("ret", 1, TRUE, "-", None, "-", "-", None, None, None, FALSE)
          [] out = "exc"   -> PView("exc", 1, FALSE, "-", None, "-", "-", None, None, None, TRUE)
          [] out = "abort" -> PView("abort", None, FALSE, "-", None, "-", "-", None, None, None, TRUE)
          [] OTHER         -> PView("cancel", 1, FALSE, "-", None, "-", "-", None, None, None, TRUE)
    ELSE
        CASE out \in {"ok", "res"} -> PView("outcome", 1, TRUE, "-", 1, "-", "-", None, None, None, FALSE)
          [] out = "exc"   -> PView("outcome", None, FALSE, "-", 1, k, "exception", 1, None, None, FALSE)
          [] out = "nested" -> PView("outcome", None, FALSE, "-", 1, "UNKNOWN", "exception", 1, None, None, FALSE)
          [] out = "abort" -> PView("outcome", None, FALSE, "ABORTED", 0, "-", "-", None, None, None, FALSE)
          [] OTHER         -> PView("cancel", 1, FALSE, "-", None, "-", "-", None, None, None, TRUE)

\* settlement without retry: <<op, class>>
SettleNoRetry(mode, out, k) ==
    CASE out \in {"ok", "res"} -> <<"ok", "-">>
      [] out = "exc"    -> <<"fail", k>>
      [] out = "nested" -> <<"fail", "UNKNOWN">>
      [] out = "abort"  -> <<"cancel", "-">>
      [] OTHER          -> <<"cancel", "-">>

(***************************************************************************)
(* Transitions: PStep(pc, p) = set of <<event, p'>>                        *)
(***************************************************************************)
StartCall(pc, p) ==
    IF p.ph = "idle" /\ p.ncall < NCalls THEN
        { <<[e |-> "pstart", mode |-> m, at |-> p.now + g],
            [p EXCEPT !.ncall = @ + 1, !.now = p.now + g, !.t0 = p.now + g, !.mode = m,
                      !.s = L!SInitM(pc.rc, m),
                      !.ph = IF ~pc.retry /\ pc.rc.abort THEN "prepoll" ELSE "allow"]>>
          : m \in Modes, g \in Gaps }
    ELSE {}

PrePoll(pc, p) ==
    IF p.ph = "prepoll" THEN
        { <<EvPrePoll(a),
            IF a THEN [p EXCEPT !.ph = "prerec"] ELSE [p EXCEPT !.ph = "allow"]>> : a \in BOOLEAN }
    ELSE {}

\* check_abort_no_retry: record_cancel before the breaker is even asked
PreRec(pc, p) ==
    IF p.ph = "prerec" THEN
        LET res == B!BRecCancel(pc.bc, p.b) IN
        { <<EvRec("cancel", "-", res.ev, res.b.st, p.now),
            [p EXCEPT !.b = res.b, !.ph = "deliver", !.view = PreAbortView(p.mode)]>> }
    ELSE {}

Allow(pc, p) ==
    IF p.ph = "allow" THEN
        LET res == B!BAllow(pc.bc, p.b, p.now) IN
        { <<EvAllow(res.allowed, res.ev, res.b.st, p.now),
            [p EXCEPT !.b = res.b, !.bev = res.ev, !.bk = "-",
                      !.ph = IF res.ev # "-" THEN (IF res.allowed THEN "bemit-run" ELSE "bemit-rej")
                             ELSE "run",
                      !.view = IF res.allowed THEN p.view ELSE RejectedView(p.mode, res.b.st)]>> }
    ELSE {}

BEmit(pc, p) ==
    IF p.ph \in {"bemit-run", "bemit-rej", "bemit-done"} THEN
        { <<EvBEmit(p.bev, p.bk, p.b.st, pc.rc.opname, p.now - p.t0),
            [p EXCEPT !.ph = CASE p.ph = "bemit-run" -> "run"
                              [] p.ph = "bemit-rej" -> "deliver"
                              [] p.ph = "bemit-done" -> IF p.post THEN "aendpost" ELSE "deliver"]>> }
    ELSE {}

\* admitted call with a retry component: the loop's own steps
RunRetry(pc, p) ==
    IF p.ph = "run" /\ pc.retry /\ p.s.pc # "deliver" THEN
        { <<x[1], [p EXCEPT !.s = x[2]]>> : x \in L!MStep(pc.rc, p.s) }
    ELSE {}

BClassify(pc, p) ==
    IF p.ph = "run" /\ pc.retry /\ p.s.pc = "deliver" /\ NeedsBClassify(p.mode, p.s) THEN
        { <<L!EvClassify(p.s.lid, p.s.lk, p.s.lra, 0, p.s.now), [p EXCEPT !.ph = "settle"]>> }
    ELSE {}

Record(pc, p, op, k, view) ==
    LET at  == p.t0 + p.s.now
        res == B!BApply(pc.bc, p.b, op, k, at)
    IN  <<EvRec(op, k, res.ev, res.b.st, at),
          [p EXCEPT !.b = res.b, !.bev = res.ev, !.bk = k, !.now = at, !.view = view,
                    !.ph = IF res.ev # "-" THEN "bemit-done"
                           ELSE IF p.post THEN "aendpost" ELSE "deliver"]>>

SettleRetry(pc, p) ==
    IF pc.retry /\ p.s.pc = "deliver"
       /\ ((p.ph = "run" /\ ~NeedsBClassify(p.mode, p.s)) \/ p.ph = "settle") THEN
        LET st == SettleWithRetry(p.mode, p.s)
            v  == IF p.mode = "call" THEN L!CallView(p.s) ELSE L!ExecView(p.s)
        IN  { Record(pc, p, st[1], st[2], v) }
    ELSE {}

\* admitted call without a retry component: [on_attempt_start,] one invocation
AStartNoRetry(pc, p) ==
    IF p.ph = "run" /\ ~pc.retry /\ pc.rc.hooks THEN
        { <<L!EvAStart(1, 0), [p EXCEPT !.ph = "run1"]>> }
    ELSE {}

InvokeNoRetry(pc, p) ==
    IF ~pc.retry /\ ((p.ph = "run" /\ ~pc.rc.hooks) \/ p.ph = "run1") THEN
        { <<L!EvInvoke(1, 0, o.out, o.k, o.ra, d),
            [p EXCEPT !.ph = "settle0", !.out = o.out, !.outk = o.k,
                      !.s = [p.s EXCEPT !.now = d]]>>
          : o \in {x \in Outs : x.out # "res"}, d \in Durs }
    ELSE {}

\* what on_attempt_end is told without a retry component (decision, stop reason, cause);
\* call(): the except ladder passes RetryExhaustedError, CircuitOpenError and the
\* cancellation kinds by without the hook
AEndNoRetry(out) ==
    CASE out = "ok"              -> <<"success", "-", "-">>
      [] out \in {"exc", "nested"} -> <<"raise", "-", "exception">>
      [] out = "abort"           -> <<"aborted", "ABORTED", "-">>
HookedOuts(mode) == IF mode = "call" THEN {"ok", "exc", "abort"} ELSE {"ok", "exc", "nested", "abort"}
EvAEndNoRetry(p) ==
    LET a == AEndNoRetry(p.out) IN L!EvAEnd(1, a[1], a[2], a[3], None, p.s.now)

AEndBefore(pc, p) ==
    IF p.ph = "settle0" /\ pc.rc.hooks /\ p.mode = "call" /\ p.out \in HookedOuts("call") THEN
        { <<EvAEndNoRetry(p), [p EXCEPT !.ph = "settle1"]>> }
    ELSE {}

SettleNoRetryStep(pc, p) ==
    IF \/ p.ph = "settle1"
       \/ p.ph = "settle0" /\ ~(pc.rc.hooks /\ p.mode = "call" /\ p.out \in HookedOuts("call")) THEN
        LET st   == SettleNoRetry(p.mode, p.out, p.outk)
            post == pc.rc.hooks /\ p.mode = "exec" /\ p.out \in HookedOuts("exec")
        IN  { Record(pc, [p EXCEPT !.post = post], st[1], st[2], NoRetryView(p.mode, p.out, p.outk)) }
    ELSE {}

AEndAfter(pc, p) ==
    IF p.ph = "aendpost" THEN
        { <<EvAEndNoRetry(p), [p EXCEPT !.ph = "deliver", !.post = FALSE]>> }
    ELSE {}

\* someone else uses the shared breaker directly between two policy calls
\* (allow() takes the probe slot, record_*() settles or trips it)
ExtOp(pc, p) ==
    IF p.ph = "idle" /\ p.next < pc.next THEN
        { LET at  == p.now + g
              res == B!BApply(pc.bc, p.b, x.op, x.k, at)
          IN  <<[e |-> "ext", op |-> x.op, k |-> x.k, allowed |-> res.allowed, ev |-> res.ev,
                 state |-> res.b.st, at |-> at],
                [p EXCEPT !.b = res.b, !.now = at, !.next = @ + 1]>> : x \in pc.ext, g \in Gaps }
    ELSE {}

PDeliver(pc, p) ==
    IF p.ph = "deliver" THEN
        { <<EvPDeliver(p.mode, p.view), [p EXCEPT !.ph = "idle", !.view = [kind |-> "-"]]>> }
    ELSE {}

PStep(pc, p) ==
    StartCall(pc, p) \cup PrePoll(pc, p) \cup PreRec(pc, p) \cup Allow(pc, p) \cup BEmit(pc, p)
    \cup RunRetry(pc, p) \cup BClassify(pc, p) \cup SettleRetry(pc, p)
    \cup AStartNoRetry(pc, p) \cup InvokeNoRetry(pc, p) \cup AEndBefore(pc, p)
    \cup SettleNoRetryStep(pc, p) \cup AEndAfter(pc, p) \cup PDeliver(pc, p) \cup ExtOp(pc, p)
=============================================================================
