#!/bin/sh
# Offline setup: nothing to build (pure Python harness + TLA+ specs); verify the tools.
set -e
cd "$(dirname "$0")"
test -x /venv/bin/python
test -f /opt/veriftools/tla/tla2tools.jar
java -version >/dev/null 2>&1
mkdir -p .work evidence replays
/venv/bin/python -c "import sys; sys.path.insert(0, '/repo/src'); import redress" 
echo setup-ok
