#!/bin/sh
# run every quick check on the current tree, refresh evidence, report exit codes and timing
cd "$(dirname "$0")/.." || exit 2
mkdir -p .work
for p in C01 C02 C03 C04 C05 C06 C07 C08 C09 C10 C11 C12 C13 C14 C15 C16 C17 C18 C19 C20; do
  s=$(date +%s); ./check $p --tier ${1:-quick} > .work/out.$p 2>&1; rc=$?
  echo "$p exit=$rc $(( $(date +%s) - s ))s viol=$(grep -c '^VIOLATION' .work/out.$p) known=$(grep -c '^KNOWN' .work/out.$p)"
done
