#!/usr/bin/env python3
"""Mutation smoke-test helper (development aid, not part of any registered check).

usage: tools/mutate.py <name> [check ids...]   - apply the named mutant to a scratch copy of
/repo under /tmp/verif-mut, optionally run the repo tests, run the given checks against it.
"""
import os, shutil, subprocess, sys
MUTS = {
 # name: (file, old, new)
 "c01_cap_plus1": ("src/redress/policy/state.py", "self.per_class_counts[klass] > limit", "self.per_class_counts[klass] > limit + 1"),
 "c01_auth_retryable": ("src/redress/policy/state.py", "if klass in (ErrorClass.PERMANENT, ErrorClass.AUTH, ErrorClass.PERMISSION):", "if klass in (ErrorClass.PERMANENT, ErrorClass.PERMISSION):"),
 "c01_unknown_res_skip": ("src/redress/policy/state.py", "        if klass is ErrorClass.UNKNOWN:\n            self.unknown_attempts += 1", "        if klass is ErrorClass.UNKNOWN and cause == \"exception\":\n            self.unknown_attempts += 1"),
 "c01_counts_on_policy": ("src/redress/policy/state.py", "        self.per_class_counts: dict[ErrorClass, int] = collections.defaultdict(int)", "        if not hasattr(policy, '_pcc'):\n            policy._pcc = collections.defaultdict(int)\n        self.per_class_counts = policy._pcc"),
 "c02_no_clamp": ("src/redress/policy/state.py", "        sleep_s = min(sleep_s, remaining_s)\n", "        pass\n"),
 "c02_walltime": ("src/redress/policy/state.py", "timedelta(seconds=time.monotonic() - self.start_mono)", "timedelta(seconds=time.time() - self.start_mono)"),
 "c02_wall_consistent": ("src/redress/policy/state.py", "        self.start_mono = time.monotonic()", "        self.start_mono = time.time()"),
 "c02_no_postsleep": ("src/redress/policy/retry_helpers.py", "    if state.elapsed() > state.policy.deadline:\n        state.last_stop_reason = StopReason.DEADLINE_EXCEEDED", "    if False and state.elapsed() > state.policy.deadline:\n        state.last_stop_reason = StopReason.DEADLINE_EXCEEDED"),
 "c03_revert_fix": ("src/redress/policy/state.py", "        if attempt >= self.policy.max_attempts:", "        if False and attempt >= self.policy.max_attempts:"),
 "c03_deadline_ge": ("src/redress/policy/retry_helpers.py", "    if state.elapsed() > state.policy.deadline:", "    if state.elapsed() >= state.policy.deadline:"),
 "c03_budget_after_event": ("src/redress/policy/state.py", "        self.prev_sleep = sleep_s\n        self.emit(\n            EventName.RETRY.value,", "        self.prev_sleep = sleep_s\n        if attempt == 2 and self.policy.budget is not None:\n            self.policy.budget.consume()\n        self.emit(\n            EventName.RETRY.value,"),
 "c04_stale_exc": ("src/redress/policy/state.py", "            self.last_result = result\n            self.last_exc = None", "            self.last_result = result"),
 "c04_async_wrap": ("src/redress/policy/runner/async_core.py", "            if isinstance(action, ScheduledAction):\n                raise_scheduled(action)\n            raise\n", "            if isinstance(action, ScheduledAction):\n                raise_scheduled(action)\n            raise type(exc)(*exc.args)\n"),
 "c05_raw_to_sleeper": ("src/redress/policy/state.py", "        return _RetryDecision(\"retry\", sleep_s, ctx)", "        return _RetryDecision(\"retry\", sleep_s if remaining_s > 1 else raw_s, ctx)"),
 "c05_prev_before_clamp": ("src/redress/policy/state.py", "        sleep_s = max(0.0, sleep_s)\n        sleep_s = min(sleep_s, remaining_s)\n", "        sleep_s = max(0.0, sleep_s)\n        self.prev_sleep = sleep_s\n        sleep_s = min(sleep_s, remaining_s)\n        _keep = True\n"),
 "c05_or_default": ("src/redress/policy/base.py", "return self._strategies.get(klass, self._default_strategy)", "return self._strategies.get(klass) if klass.name != 'RATE_LIMIT' else self._default_strategy"),
 "c11_attempts_max": ("src/redress/policy/retry_helpers.py", "        attempts=attempts,\n        last_class=None if ok else state.last_class,", "        attempts=attempts if ok or state.last_stop_reason is not StopReason.BUDGET_EXHAUSTED else state.policy.max_attempts,\n        last_class=None if ok else state.last_class,"),
 "c13_drop_retry_poll_async": ("src/redress/policy/runner/async_core.py", "            decision = state.handle_exception(exc, attempt)\n            attempt_state.classification = state.last_classification\n            if decision.action != \"raise\":\n                state.check_abort(attempt)\n\n            outcome = await _async_failure_outcome(\n                state=state,\n                attempt=attempt,\n                decision=decision,\n                classification=attempt_state.classification,\n                exception=exc,\n                result=None,\n                cause=attempt_state.cause,\n                sleep_fn=sleep_fn,\n                before_sleep=before_sleep,\n                sleeper=sleeper,\n            )\n            _call_attempt_end_from_outcome(\n                attempt_end_hook, state=state, attempt=attempt, outcome=outcome\n            )\n            attempt_state.end_called = True\n\n            action = determine_action_from_outcome(outcome, state, attempt)\n            if isinstance(action, ContinueAction):\n                continue\n            if isinstance(action, AbortAction):\n                raise AbortRetryError() from None", "            decision = state.handle_exception(exc, attempt)\n            attempt_state.classification = state.last_classification\n\n            outcome = await _async_failure_outcome(\n                state=state,\n                attempt=attempt,\n                decision=decision,\n                classification=attempt_state.classification,\n                exception=exc,\n                result=None,\n                cause=attempt_state.cause,\n                sleep_fn=sleep_fn,\n                before_sleep=before_sleep,\n                sleeper=sleeper,\n            )\n            _call_attempt_end_from_outcome(\n                attempt_end_hook, state=state, attempt=attempt, outcome=outcome\n            )\n            attempt_state.end_called = True\n\n            action = determine_action_from_outcome(outcome, state, attempt)\n            if isinstance(action, ContinueAction):\n                continue\n            if isinstance(action, AbortAction):\n                raise AbortRetryError() from None"),
 "c13_bsleep_baseexc": ("src/redress/policy/retry_helpers.py", "def _call_before_sleep(hook: BeforeSleepHook, ctx: BackoffContext, sleep_s: float) -> None:\n    try:\n        hook(ctx, sleep_s)\n    except Exception:", "def _call_before_sleep(hook: BeforeSleepHook, ctx: BackoffContext, sleep_s: float) -> None:\n    try:\n        hook(ctx, sleep_s)\n    except BaseException:"),
 "c14_double_abort": ("src/redress/policy/retry_helpers.py", "    if state.last_stop_reason is not StopReason.ABORTED:\n        state.last_stop_reason = StopReason.ABORTED\n        state.emit(\n            EventName.ABORTED.value,\n            attempts,", "    if True:\n        state.last_stop_reason = StopReason.ABORTED\n        state.emit(\n            EventName.ABORTED.value,\n            attempts,"),
 "c14_stale_stop_tag": ("src/redress/policy/retry_helpers.py", "            stop_reason=StopReason.SCHEDULED,\n            cause=state.last_cause,\n        )\n        return action", "            stop_reason=StopReason.ABORTED if attempt > 1 else StopReason.SCHEDULED,\n            cause=state.last_cause,\n        )\n        return action"),
 "c16_defer_sleeps": ("src/redress/policy/retry_helpers.py", "    if result is SleepDecision.SLEEP:\n        if before_sleep is not None:\n            _call_before_sleep(before_sleep, ctx, decision.sleep_s)\n        sleep_impl(decision.sleep_s)\n\n    return result", "    if result is SleepDecision.SLEEP or (result is SleepDecision.DEFER and attempt >= 2):\n        if before_sleep is not None:\n            _call_before_sleep(before_sleep, ctx, decision.sleep_s)\n        sleep_impl(decision.sleep_s)\n\n    return result"),
 "c16_policy_over_call": ("src/redress/policy/retry_helpers.py", "    return call_sleeper if call_sleeper is not None else policy_sleeper", "    return policy_sleeper if policy_sleeper is not None else call_sleeper"),
 "c06_prune_lt": ("src/redress/circuit.py", "while bucket and bucket[0] <= cutoff:", "while bucket and bucket[0] < cutoff:"),
 "c06_no_clear_on_open": ("src/redress/circuit.py", "            if should_open:\n                self._state = CircuitState.OPEN\n                self._opened_at = now\n                self._clear_failures()", "            if should_open:\n                self._state = CircuitState.OPEN\n                self._opened_at = now"),
 "c07_allow_gt": ("src/redress/circuit.py", "if now - opened_at >= self._recovery_timeout_s:", "if now - opened_at > self._recovery_timeout_s:"),
 "c07_no_probe_flag": ("src/redress/circuit.py", "                    self._state = CircuitState.HALF_OPEN\n                    self._probe_in_flight = True", "                    self._state = CircuitState.HALF_OPEN"),
 "c07_record_rejection": ("src/redress/policy/execution.py", "    if not decision.allowed:\n        raise CircuitOpenError(decision.state.value)", "    if not decision.allowed:\n        ctx.breaker.record_failure(ErrorClass.TRANSIENT)\n        raise CircuitOpenError(decision.state.value)"),
 "c07_exec_invoke_rejected": ("src/redress/policy/policy.py", "            if not decision.allowed:\n                return build_circuit_open_outcome(ctx, decision.state.value)", "            if not decision.allowed and decision.state.value != 'half_open':\n                return build_circuit_open_outcome(ctx, decision.state.value)"),
 "c09_always_unknown": ("src/redress/policy/async_policy.py", "                klass = outcome.last_class or ErrorClass.UNKNOWN\n                record_failure(ctx, klass)", "                klass = ErrorClass.UNKNOWN\n                record_failure(ctx, klass)"),
 "c09_scheduled_cancel": ("src/redress/policy/policy.py", "            elif outcome.stop_reason == StopReason.ABORTED:\n                record_cancel(ctx)", "            elif outcome.stop_reason in (StopReason.ABORTED, StopReason.SCHEDULED):\n                record_cancel(ctx)"),
 "c09_double_record": ("src/redress/policy/policy.py", "            record_success(ctx)\n            return result\n", "            record_success(ctx)\n            record_success(ctx)\n            return result\n"),
 "c08_drop_finally_async": ("src/redress/policy/async_policy.py", "        finally:\n            ensure_settled(ctx)\n\n    async def _call_without_retry", "        finally:\n            pass\n\n    async def _call_without_retry"),
 "c12_wrapper_drops_sleeper": ("src/redress/policy/wrappers.py", "            before_sleep=before_sleep,\n            sleeper=sleeper,\n            on_attempt_start=on_attempt_start,", "            before_sleep=before_sleep,\n            on_attempt_start=on_attempt_start,"),
 "c12_decorator_default_strategy": ("src/redress/policy/decorator.py", "        if strategy is None and strategies is None:", "        if strategy is None:"),
 "c12_async_ctx_drops_abort": ("src/redress/policy/context.py", "        result = await self.policy.call(\n            lambda: func(*args, **kwargs),\n            on_metric=self.on_metric,\n            on_log=self.on_log,\n            operation=self.operation,\n            abort_if=self.abort_if,", "        result = await self.policy.call(\n            lambda: func(*args, **kwargs),\n            on_metric=self.on_metric,\n            on_log=self.on_log,\n            operation=self.operation,\n            abort_if=None,"),
 "c15_breaker_event_unguarded": ("src/redress/policy/policy_helpers.py", "    if on_log is not None:\n        fields = {\"attempt\": 0, \"sleep_s\": 0.0, **tags}\n        try:\n            on_log(event, fields)\n        except Exception:\n            pass", "    if on_log is not None:\n        fields = {\"attempt\": 0, \"sleep_s\": 0.0, **tags}\n        on_log(event, fields)"),
 "c15_narrow_except": ("src/redress/policy/state.py", "                self.on_metric(event, attempt, sleep_s, tags)\n            except Exception:", "                self.on_metric(event, attempt, sleep_s, tags)\n            except (ValueError, RuntimeError, TimeoutError):"),
 "c15_async_bsleep_await_unguarded": ("src/redress/policy/retry_helpers.py", "    try:\n        result = hook(ctx, sleep_s)\n        if inspect.isawaitable(result):\n            await result\n    except Exception:\n        pass", "    try:\n        result = hook(ctx, sleep_s)\n    except Exception:\n        return\n    if inspect.isawaitable(result):\n        await result"),
 "c17_allow_nolock": ("src/redress/circuit.py", "        now = self._clock()\n        with self._lock:\n            if self._state is CircuitState.OPEN:", "        now = self._clock()\n        if True:\n            if self._state is CircuitState.OPEN:"),
 "c17_budget_nolock": ("src/redress/budget.py", "        now = time.monotonic()\n        with self._lock:\n            self._prune(now)\n            if len(self._events) + cost", "        now = time.monotonic()\n        if True:\n            self._prune(now)\n            if len(self._events) + cost"),
 "c17_reentry_deadlock": ("src/redress/circuit.py", "        with self._lock:\n            if self._state is CircuitState.HALF_OPEN:\n                self._probe_in_flight = False", "        with self._lock:\n            if self.state is CircuitState.HALF_OPEN:\n                self._probe_in_flight = False"),
 "c17_read_before_lock": ("src/redress/circuit.py", "        now = self._clock()\n        with self._lock:\n            if self._state is CircuitState.HALF_OPEN:\n                self._state = CircuitState.OPEN", "        now = self._clock()\n        half = self._state is CircuitState.HALF_OPEN\n        with self._lock:\n            if half:\n                self._state = CircuitState.OPEN"),
 "c19_5xx_le": ("src/redress/classify.py", "        if 500 <= code < 600:", "        if 500 <= code <= 600:"),
 "c19_http_599": ("src/redress/extras/http.py", "    if 500 <= status < 600:", "    if 500 <= status < 599:"),
 "c19_names_first": ("src/redress/classify.py", "    code = getattr(err, \"status\", None) or getattr(err, \"code\", None)\n", "    code = getattr(err, \"status\", None) or getattr(err, \"code\", None)\n    if use_name_heuristics and \"timeout\" in type(err).__name__.lower():\n        return ErrorClass.TRANSIENT\n"),
 "c19_int_coerce": ("src/redress/classify.py", "    if isinstance(code, int):", "    if isinstance(code, str) and code.isdigit():\n        code = int(code)\n    if code is not None and int(code) == code:"),
 "c19_sql_28": ("src/redress/extras/sqlstate.py", "    if code.startswith(\"28\"):", "    if code.startswith(\"28\") and code != \"28P01\":"),
 "c19_urllib3_nofallback": ("src/redress/extras/urllib3.py", "return default_classifier(exc)", "return ErrorClass.UNKNOWN"),
 "c20_revert_fix": ("src/redress/extras/http.py", "    try:\n        return max(0.0, float(seconds))\n    except OverflowError:\n        # integer too large for a float: not a usable hint\n        return None", "    return max(0.0, float(seconds))"),
 "c20_no_max0": ("src/redress/extras/http.py", "        delta = (parsed - datetime.now(UTC)).total_seconds()\n        return max(0.0, delta)", "        delta = (parsed - datetime.now(UTC)).total_seconds()\n        return delta"),
 "c20_case_sensitive": ("src/redress/extras/http.py", "            for key, val in headers.items():\n                if str(key).lower() == name.lower():\n                    return str(val)\n            return None\n        except Exception:", "            return None\n        except Exception:"),
 "c20_jitter_after_cap": ("src/redress/strategies.py", "        if ctx.remaining_s is not None:\n            sleep_s = min(sleep_s, ctx.remaining_s)\n        return sleep_s", "        if ctx.remaining_s is not None and retry_after is None:\n            sleep_s = min(sleep_s, ctx.remaining_s)\n        return sleep_s"),
 "c20_jitter_sub": ("src/redress/strategies.py", "                sleep_s += random.uniform(0.0, jitter)", "                sleep_s += random.uniform(-jitter, jitter)"),
 "c10_prune_lt": ("src/redress/budget.py", "self._events[0] <= cutoff", "self._events[0] < cutoff"),
 "c10_cap_ge": ("src/redress/budget.py", "if len(self._events) + cost > self.max_retries:", "if len(self._events) + cost >= self.max_retries:"),
}
def main():
    name = sys.argv[1]; checks = sys.argv[2:]
    if name == "list":
        print("\n".join(MUTS)); return
    dst = "/tmp/verif-mut/repo"
    shutil.rmtree("/tmp/verif-mut", ignore_errors=True)
    os.makedirs("/tmp/verif-mut")
    subprocess.run(["git", "clone", "-q", "/repo", dst], check=True)
    f, old, new = MUTS[name]
    p = os.path.join(dst, f); s = open(p).read()
    assert s.count(old) >= 1, f"pattern not found for {name}"
    if name == "c02_wall_consistent":
        s = s.replace("timedelta(seconds=time.monotonic() - self.start_mono)", "timedelta(seconds=time.time() - self.start_mono)")
    if name == "c05_raw_to_sleeper":
        s = s.replace("        sleep_s = strategy(ctx)\n", "        sleep_s = strategy(ctx)\n        raw_s = sleep_s if math.isfinite(sleep_s) and sleep_s > 0 else 0.0\n")
    s = s.replace(old, new, 1); open(p, "w").write(s)
    if os.environ.get("MUT_TESTS"):
        r = subprocess.run("timeout 120 /venv/bin/python -m pytest -q -x -p no:cacheprovider --no-cov --timeout=20 2>&1 | tail -3", shell=True, cwd=dst, capture_output=True, text=True, env={**os.environ, "PYTHONPATH": dst + "/src"})
        print("repo tests:", r.stdout.strip().splitlines()[-1])
    for c in checks:
        r = subprocess.run(["timeout", "900", "./check", c], cwd="/verif", capture_output=True, text=True, env={**os.environ, "VERIF_REPO": dst})
        lines = [l for l in r.stdout.splitlines() if l.startswith(("VIOLATION", "  clause", "OK", "KNOWN"))]
        print(f"[{name}] {c}: exit={r.returncode} " + " | ".join(lines[:4]) + (r.stderr[-300:] if r.returncode == 2 else ""))
    shutil.rmtree("/tmp/verif-mut", ignore_errors=True)
main()
