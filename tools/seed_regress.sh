#!/bin/sh
# Re-evaluate every seeded change against the check of its property (scratch worktree of /repo +
# snapshot of /verif, so /repo and the working copy stay untouched).  A seed written for an
# older /repo commit is applied with 3-way fallback.   usage: seed_regress.sh <out-file> [ids...]
OUT=${1:-/tmp/seed_regress.txt}; shift
SNAP=/tmp/verif_snap2; W=/tmp/seedrepo
rm -rf $SNAP; mkdir -p $SNAP; (cd /verif && git ls-files -z | xargs -0 cp --parents -t $SNAP); mkdir -p $SNAP/replays $SNAP/.work
git -C /repo worktree remove --force $W 2>/dev/null; rm -rf $W; git -C /repo worktree add -q --detach $W HEAD
: > $OUT
IDS="$@"; [ -z "$IDS" ] && IDS=$(ls /verif/seeded | grep -v equivalent)
for id in $IDS; do
  prop=$(python3 -c "import json;print(json.load(open('/verif/seeded/$id/meta.json'))['property'])")
  (cd $W && git checkout -q -- . && git clean -fdq && git apply /verif/seeded/$id/patch.diff 2>/dev/null) || { echo "$id $prop APPLY-FAILED" >> $OUT; continue; }
  (cd $SNAP && VERIF_REPO=$W timeout 1500 ./check $prop > .work/sr.$id 2>&1); rc=$?
  echo "$id $prop exit=$rc $(grep -m1 -A1 '^VIOLATION' $SNAP/.work/sr.$id | tail -1 | cut -c1-120)" >> $OUT
done
git -C /repo worktree remove --force $W; rm -rf $SNAP
echo DONE >> $OUT
