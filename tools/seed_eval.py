#!/usr/bin/env python3
"""Confirm a seeded change (tests pass with it, demo fails with it / passes without it) in a
scratch worktree, then run the given checks against /repo with the change applied, undo it, and
store it under /verif/seeded/<id>/.   usage: seed_eval.py <src-dir> <id> <property> <check> [<check>...]"""
import json, os, shutil, subprocess, sys
src, sid, prop, *checks = sys.argv[1:]
patch = os.path.join(src, "patch.diff")
demo = next((os.path.join(src, f) for f in os.listdir(src) if f.startswith("demo") and f.endswith(".py")), None)
W = os.environ.get("SEED_W", "/tmp/seedchk")
def sh(cmd, cwd=None, env=None, timeout=900):
    r = subprocess.run(cmd, shell=True, cwd=cwd, capture_output=True, text=True, timeout=timeout,
                       env={**os.environ, **(env or {})})
    return r.returncode, (r.stdout + r.stderr)
subprocess.run(f"git -C /repo worktree remove --force {W}", shell=True, capture_output=True)
shutil.rmtree(W, ignore_errors=True)
BASE = os.environ.get("SEED_BASE", "HEAD")     # the /repo commit the seed was written against
sh(f"git -C /repo worktree add -q --detach {W} {BASE}")
env = {"PYTHONPATH": f"{W}/src"}
rc, out = sh(f"git apply {patch}", cwd=W)
meta = {"id": sid, "property": prop, "patch_applies": rc == 0}
if BASE != "HEAD":
    meta["base_commit"] = BASE
if rc != 0:
    print("PATCH DOES NOT APPLY", out[-500:]); sh(f"git -C /repo worktree remove --force {W}"); sys.exit(1)
rc, out = sh("timeout 300 /venv/bin/python -m pytest -q -p no:cacheprovider --no-cov --timeout=60 2>&1 | tail -2", cwd=W, env=env)
meta["repo_tests_with_patch"] = out.strip().splitlines()[-1] if out.strip() else "?"
run_demo = (f"timeout 120 /venv/bin/python -m pytest -q -p no:cacheprovider --no-cov -c /dev/null --rootdir {os.path.dirname(demo)} {demo} 2>&1 | tail -1")
rc, out = sh(run_demo, cwd=W, env=env); meta["demo_with_patch"] = out.strip()
sh("git checkout -- . && git clean -fdq", cwd=W)
rc, out = sh(run_demo, cwd=W, env=env); meta["demo_without_patch"] = out.strip()
ISOLATED = os.environ.get("SEED_ISOLATED") == "1"   # another run is using /repo: check the scratch worktree
if not ISOLATED:
    sh(f"git -C /repo worktree remove --force {W}")
print(json.dumps(meta, indent=1))
# run the checks against /repo itself (or, isolated, against the patched scratch worktree)
cenv = {}
if ISOLATED:
    sh(f"git apply {patch}", cwd=W)
    cenv = {"VERIF_REPO": W}
else:
    assert sh("git -C /repo status --porcelain")[1].strip() == "", "/repo not clean"
    rc, out = sh(f"git -C /repo apply {patch}")
results = {}
try:
    for c in checks:
        rc, out = sh(f"timeout 1200 ./check {c}", cwd="/verif", timeout=1300, env=cenv)
        lines = [l for l in out.splitlines() if l.startswith(("VIOLATION", "  clause", "OK ", "MACHINERY"))]
        results[c] = {"exit": rc, "lines": lines[:6]}
        print(f"[{sid}] {c}: exit={rc} " + " | ".join(lines[:3])[:400])
finally:
    if ISOLATED:
        sh(f"git -C /repo worktree remove --force {W}")
    else:
        sh("git -C /repo checkout -- .")
        assert sh("git -C /repo status --porcelain")[1].strip() == ""
dst = f"/verif/seeded/{sid}"
os.makedirs(dst, exist_ok=True)
shutil.copy(patch, dst + "/patch.diff"); shutil.copy(demo, dst + "/" + os.path.basename(demo))
notes = os.path.join(src, "notes.md")
meta["needs"] = open(notes).read()[:3000] if os.path.exists(notes) else ""
meta["checks_run"] = results
meta["detected_by"] = [c for c, r in results.items() if r["exit"] == 1]
json.dump(meta, open(dst + "/meta.json", "w"), indent=1)
# restore evidence / replays produced against the patched tree
sh("git checkout -- evidence 2>/dev/null; find replays -name '*.json' -delete", cwd="/verif")
