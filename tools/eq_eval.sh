#!/bin/sh
# Behaviour-preserving refactorings (seeded/equivalent/EQ_*.diff): every check must stay quiet.
# Runs from a snapshot of /verif against a scratch worktree of /repo, so that work can go on here.
# usage: eq_eval.sh <out-file>
OUT=${1:-/tmp/eq_results.txt}
SNAP=/tmp/verif_snap; W=/tmp/eqrepo
rm -rf $SNAP; mkdir -p $SNAP; (cd /verif && git ls-files -z | xargs -0 cp --parents -t $SNAP); mkdir -p $SNAP/replays $SNAP/.work
git -C /repo worktree remove --force $W 2>/dev/null; rm -rf $W; git -C /repo worktree add -q --detach $W HEAD
: > $OUT
run() { # id checks...
  id=$1; shift
  (cd $W && git checkout -q -- . && git apply /verif/seeded/equivalent/$id.diff) || { echo "$id APPLY-FAILED" >> $OUT; return; }
  for c in "$@"; do
    (cd $SNAP && VERIF_REPO=$W timeout 1500 ./check $c > .work/eq.$id.$c 2>&1); rc=$?
    echo "$id $c exit=$rc drift=$(grep -c '^SPEC-DRIFT' $SNAP/.work/eq.$id.$c) $(grep -m1 -E '^VIOLATION|^MACHINERY' $SNAP/.work/eq.$id.$c | cut -c1-160)" >> $OUT
  done
}
run EQ_01 C06 C07 C08 C09 C17
run EQ_02 C10 C17
run EQ_03 C06 C07 C08 C17
run EQ_04 C18
run EQ_05 C19 C08
run EQ_06 C19 C20
run EQ_07 C07 C08 C09 C12 C14 C15
run EQ_08 C01 C02 C03 C05 C10 C13 C14
run EQ_09 C03 C04 C05 C11 C12 C13 C16
run EQ_10 C04 C08 C11 C12 C13 C15 C16
git -C /repo worktree remove --force $W; rm -rf $SNAP
echo DONE >> $OUT
