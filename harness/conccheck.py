"""C07 under concurrency: interleavings of concurrently running AsyncPolicy calls sharing one
circuit breaker (spec/ConcCalls.tla, PolicyConc.tla, ConcTrace.tla).

TLC explores all interleavings of N calls (M |= P except for the two known ways of finding F6)
and exports the behaviours; each behaviour is replayed by driving N real AsyncPolicy.execute()
coroutines by hand in exactly that interleaving (start = run until the call is suspended in its
operation or has ended; finish = resume it with the scripted outcome, or throw CancelledError
into it).  The recorded traces are validated by TLC: verdict by the identity-aware monitor and
the Breaker reference, conformance against M.
"""
from __future__ import annotations

import asyncio
import random

from . import vtime
from .common import Machinery, Report, import_redress, seed
from .policyenv import STATE, STATUS
from .retrycheck import ALL_CLASSES
from .tlc import pick_cfg, run_tlc
from .tracecheck import tlc_validate


class _Suspend:
    def __await__(self):
        yield self


def replay(ccfg: dict, events: list[dict], n_calls: int, entry: str = "AsyncPolicy",
           probe_after: bool = False) -> list[dict]:
    import_redress()
    import redress.policy as rp
    from redress.circuit import CircuitBreaker
    from redress.errors import AbortRetryError, ErrorClass

    clock = vtime.VClock()
    trace: list[dict] = []
    cur = {"i": 0}
    bc = ccfg["bc"]

    class SpyBreaker(CircuitBreaker):
        def _st(self):
            return STATE.get(self.state.value, self.state.value)

        def allow(self):
            d = super().allow()
            trace.append({"e": "callow", "i": cur["i"], "allowed": bool(d.allowed),
                          "ev": d.event or "-", "state": self._st(), "at": clock.now})
            return d

        def _rec(self, op, k, r):
            trace.append({"e": "crec", "i": cur["i"], "op": op, "k": k, "ev": r or "-",
                          "state": self._st(), "at": clock.now, "pre": cur.get("pre", False)})

        def record_success(self):
            r = super().record_success()
            self._rec("ok", "-", r)
            return r

        def record_failure(self, klass):
            r = super().record_failure(klass)
            self._rec("fail", klass.name, r)
            return r

        def record_cancel(self):
            r = super().record_cancel()
            self._rec("cancel", "-", None)
            return r

    class OpErr(Exception):
        pass

    with vtime.use_clock(clock):
        breaker = SpyBreaker(failure_threshold=bc["thr"], window_s=bc["W"] * vtime.TICK,
                             recovery_timeout_s=bc["R"] * vtime.TICK,
                             trip_on={ErrorClass[k] for k in bc["trip"]}, clock=clock.monotonic)
        pol = rp.AsyncPolicy(circuit_breaker=breaker)
        coros: dict[int, object] = {}
        outcome: dict[int, dict] = {}
        shared_exc: dict[str, BaseException] = {}     # calls of one behaviour raise the very same object
        preabort = {e["i"] for e in events if e["e"] == "crec" and e.get("pre")}

        def make_op(i):
            async def op():
                await _Suspend()
                o = outcome[i]
                trace.append({"e": "cinvoke", "i": i, "out": o["out"], "k": o["k"]})
                if o["out"] == "ok":
                    return i
                if o["out"] == "exc":
                    e = shared_exc.get(o["k"])
                    if e is None:
                        e = shared_exc[o["k"]] = OpErr("x")
                        code = STATUS.get(o["k"])
                        if code is not None:
                            e.status = code
                    raise e
                if o["out"] == "abort":
                    raise AbortRetryError()
                raise AssertionError(o)
            return op

        def start(i):
            cur["i"], cur["pre"] = i, False

            def abort_if():
                cur["pre"] = i in preabort
                return i in preabort
            c = pol.execute(make_op(i), abort_if=abort_if if ccfg["abort"] else None)
            coros[i] = c
            try:
                c.send(None)
            except StopIteration:
                coros.pop(i)
            cur["pre"] = False

        def finish(i, o):
            cur["i"], cur["pre"] = i, False
            outcome[i] = o
            c = coros.pop(i, None)
            if c is None:
                return
            try:
                if o["out"] == "cancel":
                    trace.append({"e": "cinvoke", "i": i, "out": "cancel", "k": "-"})
                    c.throw(asyncio.CancelledError())
                else:
                    c.send(None)
            except (StopIteration, asyncio.CancelledError):
                pass
            except BaseException:  # noqa: BLE001
                pass

        started: set[int] = set()
        for e in events:
            if e["e"] == "ctick":
                clock.set_now(e["at"])
                trace.append({"e": "ctick", "at": clock.now})
            elif e["e"] in ("callow", "crec") and e["i"] not in started:
                started.add(e["i"])
                start(e["i"])
            elif e["e"] == "cinvoke":
                finish(e["i"], {"out": e["out"], "k": e["k"]})
        for c in coros.values():
            c.close()
        if not coros and probe_after:
            # C08's oracle: with no call outstanding, once recovery_timeout_s has elapsed the next
            # call must be admitted (asked with the original class, past the spy)
            clock.advance(bc["R"])
            from redress.circuit import CircuitBreaker as _CB
            d = _CB.allow(breaker)
            trace.append({"e": "cprobe", "allowed": bool(d.allowed)})
    return trace


def full(ccfg: dict) -> dict:
    bc = dict(ccfg["bc"])
    bc["trip"] = list(bc["trip"])
    bc["cthr"] = {k: 0 for k in ALL_CLASSES} | dict(bc["cthr"])
    return {"bc": bc, "abort": ccfg["abort"]}


def check_into(rep: Report, tier: str, prop: str = "C07") -> None:
    mc = run_tlc("PolicyConc.tla", pick_cfg("PolicyConc_mc", tier), tag="conc-mc", timeout=3000)
    if not mc.ok:
        raise Machinery(f"PolicyConc: M violates more than the known clauses: {mc.violated}\n{mc.output[-2500:]}")
    ex = run_tlc("PolicyConc.tla", pick_cfg("PolicyConc_x", tier), tag="conc-exp", timeout=3000)
    if not ex.ok:
        raise Machinery(f"PolicyConc export: {ex.violated}")
    configs = ex.tagged["CONFIGS"][0][0]
    behs = [b[0] for b in ex.tagged.get("BEH", [])]
    rng = random.Random(seed() + 7)
    withf6 = [b for b in behs if b["viol"]]
    rest = [b for b in behs if not b["viol"]]
    rng.shuffle(rest)
    chosen = withf6 + rest[: (2000 if tier == "quick" else 60000)]
    n_calls = max(e.get("i", 0) for b in chosen for e in b["h"])
    traces = []
    mism = 0
    for b in chosen:
        ccfg = configs[b["c"] - 1]
        obs = replay(ccfg, b["h"], n_calls, probe_after=(prop == "C08"))
        if [e for e in obs if e["e"] != "cprobe"] != b["h"]:
            mism += 1
        traces.append({"cfg": full(ccfg), "n": n_calls, "ev": obs, "predicted": b["h"]})
    verdicts = tlc_validate("ConcTrace", traces, "conc", keys=("cfg", "n", "ev"))
    for t, v in zip(traces, verdicts):
        mine = sorted(c for c in v["viol"] if c.startswith(prop + ":"))
        if mine:
            rep.add_violation(mine[0], f"{prop}/concurrent/{mine[0].split(':', 1)[1]}", {
                "level": "N concurrently running AsyncPolicy.execute() calls sharing one breaker",
                "cfg": t["cfg"], "interleaving_and_observations": t["ev"], "clauses": mine,
                "predicted_by_M": t["predicted"],
                "how": "harness.conccheck.replay(cfg, events, n): calls are started / finished in the "
                       "order of the callow/crec/cinvoke events"})
        elif v["conf"] and t["ev"][v["conf"] - 1]["e"] != "cprobe":      # (the oracle's question is not M's)
            rep.drift.append(f"concurrent trace differs from M but no {prop} clause is violated")
    # canary: double admission during a probe without any disturbance must be flagged as new
    b0 = next(b for b in behs if any(e["e"] == "callow" and e["state"] == "half" for e in b["h"]))
    bad = [dict(e) for e in b0["h"]]
    k = next(i for i, e in enumerate(bad) if e["e"] == "callow" and e["state"] == "half")
    bad.insert(k + 1, dict(bad[k], i=99 if n_calls < 99 else 100, allowed=True, ev="-"))
    cv = tlc_validate("ConcTrace", [{"cfg": full(configs[b0["c"] - 1]), "n": n_calls, "ev": b0["h"]},
                                    {"cfg": full(configs[b0["c"] - 1]), "n": n_calls, "ev": bad}],
                      "conc-canary", keys=("cfg", "n", "ev"))
    if cv[0]["conf"] or "C07:second-admission-while-probe-outstanding" not in cv[1]["viol"]:
        raise Machinery(f"concurrency canary failed: {cv}")
    cov = rep.coverage
    cov["states"] = cov.get("states", 0) + mc.distinct
    cov["transitions"] = cov.get("transitions", 0) + mc.generated
    cov["traces_validated_against_impl"] = cov.get("traces_validated_against_impl", 0) + len(traces)
    cov["concurrent"] = {"mc_states": mc.distinct, "behaviours_exported": len(behs),
                         "behaviours_exhibiting_F6": len(withf6), "interleavings_replayed": len(traces),
                         "replay_mismatches": mism, "calls_per_behaviour": n_calls}
