"""C20: Retry-After hints are parsed safely and honoured exactly.

TLC evaluates spec/RetryAfter.tla: the parsing table (source x container shape x value category
-> expected hint category) and the honouring envelope on an integer grid, and exports both.  The
harness concretises every table case (fixed representatives plus seeded random members of each
category), calls the real http_retry_after_classifier, and drives retry_after_or directly and
through a real Retry policy under the virtual clock with the random draw pinned.
Level: exploration (safety "for all strings" is sampled per syntactic category).
"""
from __future__ import annotations

import math
import random
from collections.abc import Mapping
from datetime import UTC, datetime, timedelta
from email.utils import format_datetime

from . import vtime
from .common import Machinery, Report, import_redress, seed
from .tlc import run_tlc


class _RaisingMapping(Mapping):
    def __init__(self, d):
        self.d = d

    def __getitem__(self, k):
        return self.d[k]

    def __iter__(self):
        return iter(self.d)

    def __len__(self):
        return len(self.d)

    def get(self, k, default=None):
        raise RuntimeError("hostile mapping")


class _Getter:
    def __init__(self, d):
        self.d = d

    def get(self, k, default=None):
        return self.d.get(k, default)

    def items(self):
        return self.d.items()


class _ItemsOnly:
    def __init__(self, d):
        self.d = d

    def items(self):
        return self.d.items()


class _Resp:
    def __init__(self, headers):
        self.headers = headers


def value_members(cat: str, rng: random.Random, extra: int):
    """-> list of (value, expected_seconds or None) for a string category"""
    future = datetime.now(UTC).replace(microsecond=0) + timedelta(seconds=3600)
    fixed = {
        "empty": [""], "blanks": ["   ", "\t"], "d1": ["7", "0"], "d10": ["1234567890"],
        "d308": ["9" * 308, "1" + "0" * 307], "d309": ["9" * 309, "2" + "0" * 308, str(2 ** 1024 - 1), "17976931348623159" + "0" * 292,
                                                                     str(2 ** 1024)], "d310": ["1" * 310],
        "d4300": ["9" * 4300], "d4301": ["9" * 4301, "1" * 9000], "padded": [" 12 ", "\t3\n"],
        "plus": ["+5"], "minus": ["-5", "-0"], "minus_big": ["-" + "9" * 400],
        "underscore": ["1_0"], "unicode_digit": ["٣٤", "５"], "decimal": ["1.5", "0.0"],
        "exponent": ["1e5", "1E400"], "date_past": ["Wed, 21 Oct 2015 07:28:00 GMT", "Thu, 01 Jan 1970 00:00:00 GMT"],
        "date_future": [format_datetime(future, usegmt=True)],
        "date_far": ["Fri, 31 Dec 9999 23:59:59 GMT"],
        "date_rfc850": ["Friday, 06-Nov-37 08:49:37 GMT"], "date_asctime": ["Fri Nov  6 08:49:37 2037"],
        "date_naive": ["06 Nov 2037 08:49:37"],
        "date_bigfield": ["Wed, 21 Oct 99999999999 07:28:00 GMT", "Wed, 21 Oct 2015 99999999999:28:00 GMT",
                          "Wed, 99999999999999999999 Oct 2015 07:28:00 GMT",
                          "Wed, 21 Oct 2015 07:28:99999999999 GMT"],
        "date_zoned_edge": ["Fri, 31 Dec 9999 23:59:59 -0500", "Fri, 31 Dec 9999 23:59:59 EST",
                            "Mon, 01 Jan 0001 00:00:00 +0500", "Fri, 31 Dec 9999 23:59:59 -0001"],
        "garbage": ["soon", "tomorrow at noon", "éè", "Retry-After"], "nul": ["1\x002", "\x00"],
        "hex": ["0x10", "0b1", "١٢٣x"],
    }[cat]
    out = [(v, None) for v in fixed]
    for _ in range(extra):
        if cat in ("d1", "d10", "d308"):
            n = {"d1": rng.randint(1, 3), "d10": rng.randint(4, 30), "d308": rng.randint(31, 308)}[cat]
            out.append((str(rng.randint(1, 9)) + "".join(rng.choice("0123456789") for _ in range(n - 1)), None))
        elif cat in ("d309", "d310", "d4300"):
            n = {"d309": 309, "d310": rng.randint(310, 2000), "d4300": rng.randint(2001, 4300)}[cat]
            out.append((str(rng.randint(2, 9)) + "".join(rng.choice("0123456789") for _ in range(n - 1)), None))
        elif cat == "garbage":
            out.append(("".join(chr(rng.choice([rng.randint(33, 126), rng.randint(160, 0x2FF)]))
                                for _ in range(rng.randint(1, 12))) + "z", None))
        elif cat == "date_future":
            d = datetime.now(UTC).replace(microsecond=0) + timedelta(seconds=rng.randint(60, 10 ** 7))
            out.append((format_datetime(d, usegmt=True), None))
        elif cat == "date_past":
            d = datetime.now(UTC).replace(microsecond=0) - timedelta(seconds=rng.randint(1, 10 ** 8))
            out.append((format_datetime(d, usegmt=True), None))
    return out


def expected_seconds(cat: str, value: str):
    """for categories whose exact value the statement fixes"""
    if cat in ("d1", "d10", "d308", "padded"):
        return float(int(value.strip()))
    return None


def date_delta(value: str) -> float | None:
    from email.utils import parsedate_to_datetime
    try:
        d = parsedate_to_datetime(value)
    except Exception:  # noqa: BLE001
        return None
    if d.tzinfo is None:
        d = d.replace(tzinfo=UTC)
    return max(0.0, (d - datetime.now(UTC)).total_seconds())


def container(shape: str, v):
    if shape == "exact":
        return {"Retry-After": v}
    if shape == "lower":
        return {"retry-after": v}
    if shape == "upper":
        return {"RETRY-AFTER": v, "Other": "x"}
    if shape == "mixed":
        import random as _r
        key = "".join(ch.upper() if _r.Random(hash(str(v)) & 0xFFFF).random() < 0.5 else ch.lower()
                      for ch in "retry-after")
        if key in ("retry-after", "RETRY-AFTER", "Retry-After"):
            key = "Retry-after"
        return {key: v, "X": "y"}
    if shape == "mapping_get_raises":
        return _RaisingMapping({"Retry-After": v})
    if shape == "pairs":
        return [("Content-Type", "x"), ("Retry-After", v)]
    if shape == "getter":
        return _Getter({"Retry-After": v})
    if shape == "items_only":
        return _ItemsOnly({"Retry-After": v})
    if shape == "none":
        return None
    if shape == "nonstr":
        return {"Retry-After": 7}
    raise AssertionError(shape)


def attr_value(cat: str):
    return {"int": (7, 7.0), "float": (2.5, 2.5), "true": (True, None), "negint": (-3, 0.0),
            "bigint": (10 ** 400, None), "nan": (float("nan"), None), "inf": (float("inf"), None),
            "none": (None, None), "list": ([5], None), "obj": (object(), None)}[cat]


def check(tier: str) -> Report:
    import_redress()
    import redress.strategies as strategies
    from redress.classify import Classification
    from redress.errors import ErrorClass
    from redress.extras.http import http_retry_after_classifier
    from redress.strategies import BackoffContext, retry_after_or

    rep = Report(prop="C20", tier=tier, level="exploration")
    res = run_tlc("RetryAfter.tla", "RetryAfter.cfg", workers=1, tag="C20", timeout=600)
    if not res.ok:
        raise Machinery(f"RetryAfter.tla violated {res.violated}")
    cases = [c[0] for c in res.tagged.get("CASE", [])]
    grid = [g[0] for g in res.tagged.get("HONOUR", [])]
    if len(cases) < 100 or len(grid) < 50:
        raise Machinery("RetryAfter.tla exported too little")
    rng = random.Random(seed() + 20)
    extra = 3 if tier == "quick" else 40
    evaluations = 0
    cells = set()
    samples = []

    def viol(clause, sig, detail):
        rep.add_violation(clause, sig, detail)

    import os
    import time as _t
    old_tz = os.environ.get("TZ")
    zones = ["UTC", "JST-9", "EST5"]
    for ci_, c in enumerate(cases):
        # HTTP-dates are absolute: the process time zone must not matter
        if hasattr(_t, "tzset"):
            os.environ["TZ"] = zones[ci_ % len(zones)] if c["v"].startswith("date") else "UTC"
            _t.tzset()
        src, shape, cat, expect = c["src"], c["shape"], c["v"], c["expect"]
        if src == "attr" and cat in ("int", "float", "true", "negint", "bigint", "nan", "inf", "none", "list", "obj"):
            members = [(attr_value(cat)[0], attr_value(cat)[1])]
        else:
            members = [(v, expected_seconds(cat, v)) for v, _ in value_members(cat, rng, extra)]
        for mi_, (value, exact) in enumerate(members):
            # the ways an error can be a rate-limit error: numeric status under any of the three
            # attribute names (int or IntEnum), or the marker exception type without any status
            how = (ci_ + mi_) % 5
            if how == 4:
                from redress.errors import RateLimitError
                exc = type("Throttled", (RateLimitError,), {})("rate limited")
            else:
                import http as _http
                exc = type("Http429", (Exception,), {})("rate limited")
                setattr(exc, ["status", "status_code", "code", "status"][how],
                        _http.HTTPStatus(429) if how == 3 else 429)
            if src == "attr":
                exc.retry_after = value
            elif src == "headers":
                exc.headers = container(shape, value)
            else:
                exc.response = _Resp(container(shape, value))
                if mi_ % 2:
                    # an empty header container on the exception itself does not hide the response's
                    exc.headers = [{}, [], (), ""][(ci_ + mi_) % 4]
            evaluations += 1
            desc = {"source": src, "shape": shape, "category": cat,
                    "value": (value[:60] + f"...({len(value)} chars)") if isinstance(value, str) and len(value) > 60 else repr(value)}
            try:
                out = http_retry_after_classifier(exc)
            except BaseException as err:  # noqa: BLE001
                viol("C20:classifier-raises", f"C20/raises/{src}/{shape}/{cat}/{type(err).__name__}",
                     dict(desc, raised=repr(err)))
                continue
            if isinstance(out, Classification):
                klass, hint = out.klass, out.retry_after_s
            else:
                klass, hint = out, None
            if klass is not ErrorClass.RATE_LIMIT:
                viol("C20:wrong-class", f"C20/class/{src}/{shape}/{cat}", dict(desc, returned=repr(out)))
                continue
            ok_type = hint is None or (isinstance(hint, (int, float)) and not isinstance(hint, bool)
                                       and hint >= 0)
            if not ok_type:
                viol("C20:hint-not-none-or-non-negative-number", f"C20/hint/{src}/{shape}/{cat}",
                     dict(desc, hint=repr(hint)))
                continue
            good = True
            if expect == "none":
                good = hint is None
            elif expect == "zero":
                good = hint == 0
            elif expect == "n":
                good = hint is not None and exact is not None and hint == exact
            elif expect == "delta":
                want = date_delta(value)
                good = hint is not None and want is not None and abs(hint - want) <= 5
            if not good:
                viol("C20:hint-differs-from-documented-value", f"C20/value/{src}/{shape}/{cat}/expected-{expect}",
                     dict(desc, expected=expect, exact=exact, hint=repr(hint)))
            cells.add((src, shape, cat))
            if len(samples) < 6 and rng.random() < 0.02:
                samples.append(dict(desc, expected=expect, hint=repr(hint)))
    if hasattr(_t, "tzset"):
        if old_tz is None:
            os.environ.pop("TZ", None)
        else:
            os.environ["TZ"] = old_tz
        _t.tzset()
    # ---- an HTTP-date is an instant: the hint follows the clock ---------------------
    from . import vtime as _vt
    target = datetime.now(UTC).replace(microsecond=0) + timedelta(seconds=500)
    text = format_datetime(target, usegmt=True)

    def date_hint():
        exc = type("Http429", (Exception,), {})("rate limited")
        exc.status = 429
        exc.headers = {"Retry-After": text}
        out = http_retry_after_classifier(exc)
        return out.retry_after_s if isinstance(out, Classification) else None
    h1 = date_hint()
    _vt._real["sleep"](1.3)
    h2 = date_hint()
    evaluations += 2
    if h1 is None or h2 is None or not (0.8 <= h1 - h2 <= 2.5):
        viol("C20:hint-differs-from-documented-value", "C20/value/date-hint-does-not-follow-the-clock",
             {"header": text, "first_hint": h1, "hint_1.3_s_later": h2})
    # ---- honouring ---------------------------------------------------------------
    honour_eval = 0
    real_uniform = strategies.random.uniform
    try:
        for g in grid:
            u = g["u"]
            strategies.random.uniform = lambda a, b, _u=u: a + (b - a) * _u / 2.0
            strat = retry_after_or(lambda ctx: 99.0, jitter_s=g["j"] * vtime.TICK)
            ctx = BackoffContext(attempt=1, classification=Classification(ErrorClass.RATE_LIMIT,
                                                                          retry_after_s=g["h"] * vtime.TICK),
                                 prev_sleep_s=None, remaining_s=None if g["r"] < 0 else g["r"] * vtime.TICK,
                                 cause="exception")
            honour_eval += 1
            try:
                val = strat(ctx)
            except BaseException as err:  # noqa: BLE001
                viol("C20:retry_after_or-raises", "C20/honour/raises", {"grid": g, "raised": repr(err)})
                continue
            v2 = val * 2 / vtime.TICK
            if not (math.isfinite(val) and g["lo2"] <= v2 <= g["hi2"]):
                viol("C20:delay-outside-hint-envelope", "C20/honour/envelope",
                     {"grid": g, "returned_ticks_x2": v2, "lo2": g["lo2"], "hi2": g["hi2"]})
            elif v2 != g["val2"]:
                rep.drift.append(f"retry_after_or differs from the model at {g}")
            # through a real policy: the sleeper must receive a delay in the same envelope
            from . import retryenv
            if g["r"] != 0:
                D = 1000 if g["r"] < 0 else g["r"]
                cfg = {"maxAtt": 2, "lim": {}, "maxUnk": -1, "D": D, "hasDefault": True, "strat": [],
                       "legacy": [], "budget": -1, "handler": False, "abort": False, "rc": False,
                       "bsleep": False, "opname": False, "hooks": False, "adaptive": []}
                env = retryenv.Env(cfg, [{"e": "invoke", "out": "exc", "k": "RATE_LIMIT", "ra": g["h"], "dur": 0},
                                         {"e": "invoke", "out": "ok", "k": "-", "ra": -1, "dur": 0}])
                import redress.policy as rp
                with vtime.use_clock(env.clock):
                    r = rp.Retry(classifier=env.classifier, strategy=strat, deadline_s=D * vtime.TICK,
                                 max_attempts=2, sleeper=env.sleeper)
                    env.start_run()
                    r.execute(env.op)
                honour_eval += 1
                sl = [x * 2 / vtime.TICK for x in env.raw_sleeps]
                hi2 = g["hi2"] if g["r"] >= 0 else 2 * (g["h"] + g["j"])
                if len(sl) != 1 or not (g["lo2"] <= sl[0] <= hi2):
                    viol("C20:policy-sleep-outside-hint-envelope", "C20/honour/policy",
                         {"grid": g, "sleeps": sl})
    finally:
        strategies.random.uniform = real_uniform
    rep.coverage.update({
        "evaluations": evaluations + honour_eval, "distinct_nontrivial": len(cells) + len(grid),
        "rule": "parsing: one cell per (source, container shape, value category) of spec/RetryAfter.tla, each "
                "concretised by fixed representatives and seeded random members; a cell counts when the real "
                "classifier was exercised on it; honouring: one cell per (hint, jitter, draw, remaining) grid "
                "point, driven directly and through a real Retry policy on the virtual clock",
        "table_cases": len(cases), "honour_grid": len(grid), "tlc_states": res.distinct, "exhaustive": False,
        "samples": samples[:5] + [grid[len(grid) // 2]],
    })
    rep.assumptions += ["HTTP-date expectations are compared with a tolerance of 5 s against the real wall clock",
                        "safety over all strings is sampled per syntactic category, not proved"]
    return rep
