"""C08: enumeration of the ways and points at which an admitted policy call can end.

Base scenarios are TLC behaviours of PolicyCall whose last call is admitted (in particular as
the half-open probe).  For each of them the harness injects one fault into the last call:
  - the operation ends with a kind the model does not offer (GeneratorExit, nested
    CircuitOpenError, an exception hostile to classifiers, ...);
  - a user callback raises at its k-th invocation (classifier, result classifier, strategy,
    sleep handler, before_sleep, sleeper, on_attempt_start, on_attempt_end), with ordinary and
    cancellation-type exceptions;
  - async: an exception is thrown into the coroutine at each suspension point.
Each execution is recorded and judged by TLC (PolicyTrace / PolicyMon): an admitted call must
have settled the breaker when the entry point returns or raises, and no probe slot may be left
occupied.
"""
from __future__ import annotations

import random

from . import policyenv
from .common import seed
from .retryenv import make_exc

OP_KINDS = ["genexit", "circuitopen", "hostile", "cancel", "kbd", "sysexit", "nested", "abort", "error"]
SITES = ["classifier", "rclassifier", "strategy", "handler", "bsleep", "sleeper", "astart", "aend", "abort"]
SITE_KINDS = ["error", "kbd", "cancel", "genexit", "abort", "circuitopen", "nested", "sysexit"]
THROW_KINDS = ["cancel", "kbd", "genexit", "error", "sysexit"]


def _last_call(events):
    idx = max(i for i, e in enumerate(events) if e["e"] == "pstart")
    return idx, events[idx:]


def _admitted(call_events) -> bool:
    return any(e["e"] == "allow" and e["allowed"] for e in call_events)


def select_bases(configs, behs, rng: random.Random, limit: int):
    """behaviours whose last call is admitted, preferring half-open probes, one per shape"""
    shapes: dict = {}
    for b in behs:
        idx, last = _last_call(b["h"])
        if not _admitted(last):
            continue
        allow = next(e for e in last if e["e"] == "allow")
        shape = (b["c"], allow["state"], last[0]["mode"],
                 tuple((e["e"], e.get("out"), e.get("dec"), e.get("name")) for e in last
                       if e["e"] in ("invoke", "handler", "emit")))
        shapes.setdefault(shape, b)
    items = sorted(shapes.items(), key=lambda kv: (kv[0][1] != "half", rng.random()))
    chosen = [b for _, b in items[:limit]]
    # ... and half-open probes of policies with an abort_if (with and without retry component),
    # so that a raising abort_if is exercised at every place it is consulted
    extra: dict = {}
    for (cid, state, mode, _shape), b in items:
        cfg = configs[cid - 1]
        if state == "half" and cfg["rc"]["abort"]:
            extra.setdefault((bool(cfg["retry"]), mode), b)
    return chosen + [b for b in extra.values() if b not in chosen]


def enumerate_faults(configs, behs, tier: str) -> list[dict]:
    rng = random.Random(seed() * 31 + 8)
    bases = select_bases(configs, behs, rng, 40 if tier == "quick" else 400)
    out: list[dict] = []

    def record(pcfg, events, fault, **kw):
        try:
            obs = policyenv.run_policy_scenario(pcfg, events, hooks=True, probe_after=True, **kw)
        except Exception as exc:  # noqa: BLE001
            obs = [{"e": "harness-error", "what": f"{type(exc).__name__}: {exc}"}]
        out.append({"cfg": policyenv.full_pcfg(pcfg), "ev": obs, "fault": fault,
                    "variant": {k: v for k, v in kw.items() if k in ("entry",)},
                    "signature": "C08/" + "/".join(str(fault[k]) for k in ("entry", "retry", "mode", "where", "kind"))})

    for b in bases:
        pcfg = configs[b["c"] - 1]
        events = b["h"]
        idx, last = _last_call(events)
        ncall = sum(1 for e in events if e["e"] == "pstart") - 1
        mode = last[0]["mode"]
        inv = [i for i, e in enumerate(events) if i > idx and e["e"] == "invoke"]
        for entry in ("Policy", "AsyncPolicy"):
            base_f = {"entry": entry, "retry": bool(pcfg["retry"]), "mode": mode}
            # 1. the operation itself ends in a way M does not offer
            if inv:
                for kind in OP_KINDS:
                    ev2 = [dict(e) for e in events]
                    ev2[inv[0]].update(out=kind, k="-")
                    record(pcfg, ev2, dict(base_f, where="operation", kind=kind), entry=entry)
            # 2. a callback raises
            for site in SITES:
                for kind in SITE_KINDS:
                    record(pcfg, events, dict(base_f, where=site, kind=kind), entry=entry,
                           site_fault={"site": site, "at": 1, "call": ncall, "kind": kind})
            # 3. async: throw into the coroutine at each suspension point of the last call
            if entry == "AsyncPolicy":
                for acb in (False, True):
                    for point in range(1, 7):
                        for kind in THROW_KINDS:
                            hit = []

                            def on_suspend(ci, label, i, _p=point, _k=kind, _hit=hit):
                                if ci == ncall and i == _p:
                                    _hit.append(label)
                                    return make_exc(_k)
                                return None
                            n0 = len(out)
                            record(pcfg, events, dict(base_f, where=f"await#{point}", kind=kind),
                                   entry=entry, on_suspend=on_suspend, async_callbacks=acb)
                            if not hit:
                                del out[n0:]      # the run has fewer suspension points
                                break
    return out
