"""Deterministic line-level thread scheduler (C17).

Worker threads run small programs over one shared component (CircuitBreaker or Budget).  A
``sys.settrace`` function parks each worker before every source line of the component's module;
the component's ``_lock`` attribute is replaced *on the instance* by a scheduler-aware lock with
the same interface.  The main thread is the scheduler: it decides which worker runs the next
line, so a schedule is a sequence of thread ids and every execution is reproducible.

Schedules are enumerated depth-first with iterative pre-emption bounding: a context switch away
from a thread that could have continued counts as one pre-emption.

A schedule in which no live thread can run (all blocked on the lock) is a deadlock.
"""
from __future__ import annotations

import sys
import threading
from typing import Callable

STEP_LIMIT = 4000


class Deadlock(Exception):
    pass


class SchedLock:
    """Drop-in for threading.Lock under the scheduler's control."""

    def __init__(self, sched: "Scheduler") -> None:
        self.sched = sched
        self.owner: int | None = None

    def acquire(self, blocking: bool = True, timeout: float = -1) -> bool:
        w = self.sched.current_worker()
        if w is None:                      # main thread (setup / observation): never contended
            if self.owner is not None:
                raise Deadlock("lock re-entered in sequential code")
            self.owner = -1
            return True
        while self.owner is not None:
            if self.owner == w.tid:
                w.blocked_on = self        # re-entry: self-deadlock
                w.self_deadlock = True
            else:
                w.blocked_on = self
            w.park()
        w.blocked_on = None
        self.owner = w.tid
        self.sched.events.append((w.tid, "acquire"))
        return True

    def release(self) -> None:
        w = self.sched.current_worker()
        self.owner = None
        if w is not None:
            self.sched.events.append((w.tid, "release"))

    def locked(self) -> bool:
        return self.owner is not None

    __enter__ = acquire

    def __exit__(self, *exc) -> None:
        self.release()


class Worker:
    def __init__(self, sched: "Scheduler", tid: int, program: Callable[[], list]) -> None:
        self.sched, self.tid, self.program = sched, tid, program
        self.go = threading.Semaphore(0)
        self.done = False
        self.blocked_on: SchedLock | None = None
        self.self_deadlock = False
        self.results: list = []
        self.error: BaseException | None = None
        self.thread = threading.Thread(target=self._run, daemon=True)

    def park(self) -> None:
        self.sched.yielded.release()
        self.go.acquire()
        if self.sched.abort:
            raise SystemExit

    def _trace(self, frame, event, arg):
        if frame.f_code.co_filename in self.sched.files:
            return self._local
        return None

    def _local(self, frame, event, arg):
        if event == "line":
            self.sched.events.append((self.tid, "line", frame.f_code.co_name,
                                      frame.f_lineno - frame.f_code.co_firstlineno))
            self.park()
        return self._local

    def _run(self) -> None:
        self.sched.tls.worker = self
        self.go.acquire()                  # wait for the first scheduling decision
        if self.sched.abort:
            self.done = True
            self.sched.yielded.release()
            return
        sys.settrace(self._trace)
        try:
            self.results = self.program()
        except SystemExit:
            pass
        except BaseException as exc:  # noqa: BLE001
            self.error = exc
        finally:
            sys.settrace(None)
            self.done = True
            self.sched.yielded.release()


class Scheduler:
    def __init__(self, files: set[str]) -> None:
        self.files = files
        self.tls = threading.local()
        self.yielded = threading.Semaphore(0)
        self.workers: list[Worker] = []
        self.events: list = []
        self.abort = False

    def current_worker(self) -> Worker | None:
        return getattr(self.tls, "worker", None)

    def run(self, programs: list[Callable[[], list]], plan: list[int]):
        """Run one execution following `plan`, then non-pre-emptively.  Returns
        (choices, enabled_sets, deadlock: bool)."""
        self.workers = [Worker(self, i, p) for i, p in enumerate(programs)]
        self.events = []
        self.abort = False
        for w in self.workers:
            w.thread.start()
        choices: list[int] = []
        enabled_log: list[tuple] = []
        cur = -1
        deadlock = False
        steps = 0
        while True:
            live = [w for w in self.workers if not w.done]
            if not live:
                break
            enabled = tuple(w.tid for w in live
                            if w.blocked_on is None or (w.blocked_on.owner is None))
            if not enabled or steps > STEP_LIMIT:
                deadlock = True
                break
            i = len(choices)
            if i < len(plan) and plan[i] in enabled:
                nxt = plan[i]
            elif cur in enabled:
                nxt = cur
            else:
                nxt = enabled[0]
            choices.append(nxt)
            enabled_log.append((enabled, cur))
            cur = nxt
            steps += 1
            self.workers[nxt].go.release()
            self.yielded.acquire()
        if deadlock:
            self.abort = True
            for w in self.workers:
                if not w.done:
                    w.go.release()
            for w in self.workers:
                w.thread.join(timeout=2)
        else:
            for w in self.workers:
                w.thread.join(timeout=2)
        return choices, enabled_log, deadlock


def preemptions(choices: list[int], enabled_log: list[tuple]) -> int:
    n = 0
    for c, (enabled, cur) in zip(choices, enabled_log):
        if cur != -1 and cur in enabled and c != cur:
            n += 1
    return n


def explore(make_execution: Callable[[], tuple], bound: int, max_schedules: int):
    """make_execution() -> (scheduler, programs, collect) builds a fresh component and programs;
    collect(sched, deadlock) -> history record.  Yields history records, one per schedule."""
    stack: list[list[int]] = [[]]
    n = 0
    while stack and n < max_schedules:
        plan = stack.pop()
        sched, programs, collect = make_execution()
        choices, enabled_log, deadlock = sched.run(programs, plan)
        n += 1
        yield collect(sched, deadlock, choices)
        for i in range(len(plan), len(choices)):
            enabled, cur = enabled_log[i]
            for alt in enabled:
                if alt == choices[i]:
                    continue
                newplan = choices[:i] + [alt]
                log2 = enabled_log[:i + 1]
                if preemptions(newplan, log2) <= bound:
                    stack.append(newplan)
