"""C10 at the level of the Budget object (the policy-level part lives in retry checks).

S->C: every transition of spec/BudgetMC's graph replayed on a real Budget; C->S: random
histories (costs up to 3, boundary ages) validated by TLC (spec/BudgetTrace)."""
from __future__ import annotations

import json
import random

from . import vtime
from .common import Machinery, Report, import_redress, seed
from .graph import replay_graph
from .tlc import pick_cfg, run_tlc
from .tracecheck import tlc_validate


class RealBudget:
    def __init__(self, cfg: dict) -> None:
        import_redress()
        from redress.budget import Budget

        self.config = cfg
        self.clock = vtime.VClock()
        with vtime.use_clock(self.clock):
            self.b = Budget(max_retries=cfg["max"], window_s=cfg["W"] * vtime.TICK)
            # a second, busy budget in the same process: instances share nothing
            self.other = Budget(max_retries=3, window_s=1000.0)

    def do(self, ev: dict):
        self.clock.set_now(ev["t"])
        with vtime.use_clock(self.clock):
            self.other.consume(1)
            self.other.remaining()
            try:
                if ev["op"] == "consume":
                    r = self.b.consume(ev["cost"])
                    ret = 1 if r is True else 0 if r is False else -1
                else:
                    r = self.b.remaining()
                    ret = r if isinstance(r, int) and not isinstance(r, bool) else -1
            except Exception:  # noqa: BLE001
                ret = -2
        return {"op": ev["op"], "cost": ev["cost"], "t": ev["t"], "ret": ret}, ev


def random_history(rng: random.Random, length: int) -> dict:
    cfg = {"max": rng.choice([0, 1, 1, 2, 3, 5, 8]), "W": rng.choice([1, 2, 3, 5, 9, 30])}
    rb = RealBudget(cfg)
    t = 0
    evs = []
    grants: list[int] = []
    for _ in range(length):
        W = cfg["W"]
        if grants and rng.random() < 0.4:
            tgt = rng.choice(grants) + W + rng.choice([-1, 0, 0, 1])
            if tgt >= t:
                t = tgt
        else:
            t += rng.choice([0, 0, 0, 1, 1, W - 1, W, W + 1, rng.randrange(0, 2 * W + 2)])
        if rng.random() < 0.7:
            ev = {"op": "consume", "cost": rng.choice([1, 1, 1, 2, 3]), "t": t, "ret": 0}
        else:
            ev = {"op": "remaining", "cost": 0, "t": t, "ret": 0}
        o, _ = rb.do(ev)
        if o["op"] == "consume" and o["ret"] == 1:
            grants += [t] * o["cost"]
        evs.append(o)
    return {"cfg": cfg, "ev": evs}


def check(tier: str) -> Report:
    rep = Report(prop="C10", tier=tier, level="model_checking")
    rng = random.Random(seed() * 104729 + 5)
    mc_cfg = pick_cfg("BudgetMC_quick", tier)
    mc = run_tlc("BudgetMC.tla", mc_cfg, tag="bud-mc", timeout=3000)
    if not mc.ok:
        raise Machinery(f"spec-level counterexample in BudgetMC: {mc.violated}\n{mc.output[-2000:]}")
    # symbolic: the window invariant is inductive for arbitrary integer max_retries, window and times
    from .apalache import budget_symbolic
    sym = budget_symbolic(tier)
    ex = run_tlc("BudgetMC.tla", pick_cfg("BudgetMC_export", tier), tag="bud-exp", timeout=3000)
    if not ex.ok:
        raise Machinery(f"BudgetMC export violated {ex.violated}")
    configs = ex.tagged["CONFIGS"][0][0]
    edges = [e[0] for e in ex.tagged.get("EDGE", [])]
    g = replay_graph(edges, lambda cid: RealBudget(configs[cid - 1]),
                     lambda o, p: o["ret"] == p["ret"], rng,
                     n_walks=3000 if tier == "quick" else 30000)
    rand = [random_history(rng, 40) for _ in range(1500 if tier == "quick" else 20000)]
    # a large budget spent in bulk: hundreds of grants age out between two operations
    big_cfg = {"max": 700, "W": 4}
    rb = RealBudget(big_cfg)
    big_ops = [("consume", 700, 0), ("remaining", 0, 1), ("consume", 1, 1), ("remaining", 0, 10),
               ("consume", 700, 10), ("consume", 1, 10), ("consume", 650, 14), ("remaining", 0, 14)]
    rand.append({"cfg": big_cfg, "ev": [rb.do({"op": o, "cost": c, "t": t})[0] for o, c, t in big_ops]})
    allt = g["mismatches"] + rand
    verdicts = tlc_validate("BudgetTrace", allt, "bud")
    # canary: flip one consume result
    bad = json.loads(json.dumps(rand[0]))
    i = next(i for i, e in enumerate(bad["ev"]) if e["op"] == "consume")
    bad["ev"][i]["ret"] = 1 - bad["ev"][i]["ret"]
    cv = tlc_validate("BudgetTrace", [bad], "bud-canary")[0]
    if not cv["viol"] or not cv["conf"]:
        raise Machinery("canary: corrupted budget trace accepted")
    nonconf = 0
    for tr, v in zip(allt, verdicts):
        nonconf += 1 if v["conf"] else 0
        if v["viol"]:
            cl = sorted(v["viol"])
            rep.add_violation(cl[0], f"C10/budget/{cl[0].split(':', 1)[1]}",
                              {"level": "Budget", "cfg": tr["cfg"], "trace": tr["ev"],
                               "first_violating_op": v["first"], "clauses": cl,
                               "predicted_by_M": tr.get("predicted"),
                               "how": "Budget(max_retries=max, window_s=W ticks of 2**-6 s) on a "
                                      "virtual monotonic clock; apply the operations at the "
                                      "listed times"})
        elif v["conf"]:
            rep.drift.append(f"real Budget differs from M at op {v['conf']} but C10 holds")
    rep.coverage.update({
        "states": mc.distinct, "transitions": mc.generated, "depth": mc.depth, "mc_cfg": mc_cfg,
        "traces_validated_against_impl": g["n_traces"] + len(rand),
        "graph_edges_exported": len(edges), "graph_replays": g["n_traces"],
        "graph_replay_ops": g["n_ops"], "replay_mismatches": len(g["mismatches"]),
        "random_histories_tlc_validated": len(rand), "nonconformant_traces": nonconf,
        "trace_check_states": verdicts[0]["_states"] if verdicts else 0,
        "exhaustive": True, "canary": "corrupted trace rejected", "symbolic": sym,
        "samples": g["samples"][:2] + [{"cfg": rand[0]["cfg"], "ops": rand[0]["ev"][:12]}],
    })
    rep.assumptions += ["clock values are whole ticks of 2**-6 s", "monotonic clock never goes back",
                        "bounds of the exhaustive model: spec/" + mc_cfg]
    return rep
