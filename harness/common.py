"""Shared plumbing: paths, redress import, verdict bookkeeping, evidence, known findings."""
from __future__ import annotations

import hashlib
import json
import os
import sys
from dataclasses import dataclass, field
from pathlib import Path
from typing import Any

from . import vtime

VERIF = Path(__file__).resolve().parent.parent
REPO = Path(os.environ.get("VERIF_REPO", "/repo"))
EVIDENCE = VERIF / "evidence"
REPLAYS = VERIF / "replays"
WORK = VERIF / ".work"
KNOWN_FILE = VERIF / "known_findings.json"

GUARD = "REDRESS_VERIF"


def seed() -> int:
    try:
        return int(os.environ.get("VERIF_SEED", "0"))
    except ValueError:
        return 0


def import_redress():
    """Import redress from the current working tree of /repo with virtual time installed."""
    vtime.install()
    src = str(REPO / "src")
    if src not in sys.path:
        sys.path.insert(0, src)
    os.environ.setdefault(GUARD, "1")
    import redress  # noqa: F401

    origin = Path(redress.__file__).resolve()
    if not str(origin).startswith(str((REPO / "src").resolve())):
        raise RuntimeError(f"redress imported from {origin}, expected {REPO}/src")
    return redress


# ---------------------------------------------------------------------------
# verdict bookkeeping
# ---------------------------------------------------------------------------
@dataclass
class Violation:
    prop: str
    clause: str            # monitor clause that failed
    signature: str         # stable identification used by known_findings.json
    detail: dict           # scenario + observed trace
    replay: str = ""


@dataclass
class Report:
    prop: str
    tier: str
    level: str
    violations: list[Violation] = field(default_factory=list)
    known_hits: list[str] = field(default_factory=list)
    drift: list[str] = field(default_factory=list)
    coverage: dict[str, Any] = field(default_factory=dict)
    assumptions: list[str] = field(default_factory=list)
    t0: float = field(default_factory=vtime.real_time)

    def add_violation(self, clause: str, signature: str, detail: dict) -> None:
        self.violations.append(Violation(self.prop, clause, signature, detail))


def load_known() -> dict:
    if KNOWN_FILE.exists():
        return json.loads(KNOWN_FILE.read_text())
    return {"known": [], "fixed": []}


def _matches(entry: dict, v: Violation) -> bool:
    if entry.get("property") != v.prop:
        return False
    sig = entry.get("signature")
    return sig is not None and sig == v.signature


def finish(rep: Report) -> int:
    """Write evidence, replay files; print KNOWN-FINDING / VIOLATION lines; return exit code."""
    known = load_known()["known"]
    new: list[Violation] = []
    hit: dict[str, str] = {}
    for v in rep.violations:
        ent = next((e for e in known if _matches(e, v)), None)
        if ent is not None:
            hit.setdefault(ent["signature"], ent.get("what", ent["signature"]))
        else:
            new.append(v)
    for sig, what in sorted(hit.items()):
        print(f"KNOWN-FINDING: property={rep.prop} {what} [{sig}]")
    REPLAYS.mkdir(exist_ok=True)
    (REPLAYS / rep.prop).mkdir(exist_ok=True)
    seen_sig: set[str] = set()
    for v in new:
        if v.signature in seen_sig:
            continue
        seen_sig.add(v.signature)
        if len(seen_sig) > 12:
            break
        body = json.dumps({"property": v.prop, "clause": v.clause, "signature": v.signature,
                           **v.detail}, indent=1, sort_keys=True, default=str)
        h = hashlib.sha1(body.encode()).hexdigest()[:12]
        path = REPLAYS / rep.prop / f"{h}.json"
        path.write_text(body)
        v.replay = str(path)
        print(f"VIOLATION property={rep.prop} replay={path}")
        print(f"  clause: {v.clause}   signature: {v.signature}")
    for d in rep.drift[:5]:
        print(f"SPEC-DRIFT property={rep.prop} {d}")
    cov = dict(rep.coverage)
    cov["known_findings_hit"] = sorted(hit)
    cov["spec_drift"] = len(rep.drift)
    ev = {
        "property_id": rep.prop,
        "tier": rep.tier,
        "seed": seed(),
        "level": rep.level,
        "coverage": cov,
        "assumptions": rep.assumptions,
        "wall_s": round(vtime.real_time() - rep.t0, 2),
        "violations": len({v.signature for v in new}),
    }
    EVIDENCE.mkdir(exist_ok=True)
    (EVIDENCE / f"{rep.prop}.json").write_text(json.dumps(ev, indent=1, default=str) + "\n")
    if new:
        return 1
    print(f"OK property={rep.prop} tier={rep.tier} "
          + " ".join(f"{k}={v}" for k, v in cov.items()
                     if isinstance(v, (int, float, bool)) and not isinstance(v, dict)))
    return 0


class Machinery(Exception):
    """The checking machinery itself failed (exit 2, never a VIOLATION line)."""
