"""C07 (policy part), C08, C09 and the breaker-event part of C14: checks decided with
PolicyCall.tla (M) and PolicyMon.tla (P).  Same pipeline as retrycheck (exhaustive M |= P,
behaviour export, S->C replay through Policy and AsyncPolicy, TLC trace validation), plus for
C08 a fault enumeration on the real code whose traces are judged by TLC against P."""
from __future__ import annotations

import json
import random

from . import policyenv
from .common import Machinery, Report, seed
from .retrycheck import export_behaviours, replay_behaviours
from .tlc import pick_cfg, run_tlc
from .tracecheck import tlc_validate

VARIANTS = [{"entry": "Policy", "permute": False, "flavours": "nocircuit", "sugar_retry": True},
            {"entry": "AsyncPolicy", "permute": True, "flavours": "nocircuit"},
            {"entry": "AsyncPolicy", "permute": False, "place": "ctor", "async_callbacks": True,
             "sugar_retry": True}]


def judge(rep: Report, prop: str, traces, verdicts, origin: str) -> int:
    nonconf = 0
    for tr, v in zip(traces, verdicts):
        if any(e.get("e") == "harness-error" for e in tr["ev"]):
            raise Machinery(f"harness error inside a scenario: {tr['ev'][-1]}")
        nonconf += 1 if v["conf"] else 0
        mine = sorted(c for c in v["viol"] if c.startswith(prop + ":"))
        if mine:
            sig = tr.get("signature") or f"{prop}/{mine[0].split(':', 1)[1]}"
            rep.add_violation(mine[0], sig, {
                "origin": origin, "cfg": tr["cfg"], "variant": tr.get("variant"),
                "fault": tr.get("fault"), "observed": tr["ev"],
                "predicted_by_M": tr.get("predicted"), "clauses": mine,
                "first_nonconformant_event": v["conf"],
                "how": "harness.policyenv.run_policy_scenario(cfg, events, **variant) [+ fault]: "
                       "the observed event stream violates the listed clauses of spec/PolicyMon.tla"})
        elif v["conf"] and not tr.get("fault"):
            rep.drift.append(f"{origin}: differs from M at event {v['conf']}, no {prop} clause violated")
    return nonconf


def check(prop: str, tier: str, rep: Report | None = None) -> Report:
    base = rep
    rep = rep or Report(prop=prop, tier=tier, level="model_checking")
    mc_cfg, ex_cfg = pick_cfg(f"PolicyMC_{prop}", tier), pick_cfg(f"PolicyMC_{prop}x", tier)
    mc = run_tlc("PolicyMC.tla", mc_cfg, tag=f"{prop}-mc", timeout=3000)
    if not mc.ok:
        raise Machinery(f"spec-level counterexample: M violates {mc.violated} in {mc_cfg}\n"
                        f"{mc.output[-3000:]}")
    configs, behs, ex = export_behaviours(ex_cfg, f"{prop}-exp", module="PolicyMC.tla")
    variants = VARIANTS[:2] if (prop == "C07" and tier == "quick") else VARIANTS
    n_replayed, mism = replay_behaviours(configs, behs, variants, level="policy")
    ext_cov: dict = {}
    if prop in ("C07", "C14"):
        # the breaker is also used directly, between the policy calls, by someone else
        xm = run_tlc("PolicyMC.tla", "PolicyMC_EXT.cfg", tag=f"{prop}-ext-mc", timeout=3000)
        if not xm.ok:
            raise Machinery(f"spec-level counterexample: M violates {xm.violated} in PolicyMC_EXT.cfg")
        xconfigs, xbehs, xres = export_behaviours("PolicyMC_EXTx.cfg", f"{prop}-ext", module="PolicyMC.tla")
        xn, xmism = replay_behaviours(xconfigs, xbehs, VARIANTS[:2], level="policy")
        n_replayed += xn
        mism = mism + xmism
        ext_cov = {"direct_breaker_ops": {"mc_states": xm.distinct, "behaviours_exported": len(xbehs),
                                          "replays": xn, "replay_mismatches": len(xmism)}}
    v1 = tlc_validate("PolicyTrace", mism, f"{prop}-mism") if mism else []
    nonconf = judge(rep, prop, mism, v1, "S->C replay of a TLC behaviour")
    extra: dict = {}
    if prop == "C08":
        from . import faults
        ftraces = faults.enumerate_faults(configs, behs, tier)
        v3 = tlc_validate("PolicyTrace", ftraces, f"{prop}-faults")
        judge(rep, prop, ftraces, v3, "fault enumeration on the real code")
        extra = {"fault_scenarios_tlc_validated": len(ftraces),
                 "fault_kinds": sorted({t["fault"]["kind"] for t in ftraces})}
        n_replayed += len(ftraces)
    # canary (independent of the code under test): M's own behaviour must be accepted and the
    # same behaviour without its last settlement record rejected
    beh = next(b for b in behs if any(e["e"] == "rec" for e in b["h"]))
    good = beh["h"]
    bad = [e for i, e in enumerate(good)
           if i != max(j for j, x in enumerate(good) if x["e"] == "rec")]
    cv = tlc_validate("PolicyTrace", [{"cfg": policyenv.full_pcfg(configs[beh["c"] - 1]), "ev": good},
                                      {"cfg": policyenv.full_pcfg(configs[beh["c"] - 1]), "ev": bad}],
                      f"{prop}-canary")
    if cv[0]["viol"] or cv[0]["conf"] or not cv[1]["viol"] or not cv[1]["conf"]:
        raise Machinery(f"canary failed: {cv}")
    prev = dict(rep.coverage) if base is not None else {}
    rep.coverage.update({
        "states": mc.distinct + prev.get("states", 0),
        "transitions": mc.generated + prev.get("transitions", 0), "depth": mc.depth, "mc_cfg": mc_cfg,
        "export_cfg": ex_cfg, "behaviours_exported": len(behs), "export_states": ex.distinct,
        "replays": n_replayed, "replay_mismatches": len(mism), "nonconformant_replays": nonconf,
        "traces_validated_against_impl": n_replayed + prev.get("traces_validated_against_impl", 0),
        "entry_points": ["Policy.call", "Policy.execute", "AsyncPolicy.call", "AsyncPolicy.execute",
                         "with and without retry component"],
        "exhaustive": True, "canary": "trace without its settlement record rejected", **extra, **ext_cov,
        "samples": [{"cfg": configs[behs[i]["c"] - 1], "predicted_and_observed_trace": behs[i]["h"]}
                    for i in (0, len(behs) // 2)] + prev.get("samples", [])[:1],
    })
    if base is not None:
        rep.coverage["breaker_level"] = {k: v for k, v in prev.items() if k != "samples"}
    rep.assumptions += [
        "virtual clock (ticks of 2**-6 s); the breaker is observed through a subclass that delegates "
        "to the real allow/record_* methods",
        f"bounds: spec/{mc_cfg}, exported behaviours: spec/{ex_cfg}",
    ]
    return rep
