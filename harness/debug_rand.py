import json, sys, collections
from . import retrycheck
from .tracecheck import tlc_validate
n=int(sys.argv[1]) if len(sys.argv)>1 else 1500
rand = retrycheck.random_traces(n, "dbg")
vs = tlc_validate("RetryTrace", rand, "dbg")
cnt=collections.Counter()
shown=0
for t,v in zip(rand,vs):
    for c in v["viol"]: cnt[c]+=1
    if v["conf"]: cnt["nonconf"]+=1
    if (v["conf"] or v["viol"]) and shown<int(sys.argv[2] if len(sys.argv)>2 else 3):
        shown+=1
        print("=== viol",v["viol"],"conf",v["conf"], "variant", t["variant"])
        print("cfg", {k:v2 for k,v2 in t["cfg"].items() if k!="lim"}, "lim", {k:x for k,x in t["cfg"]["lim"].items() if x!=-1})
        for i,e in enumerate(t["ev"],1):
            print(("->" if i==v["conf"] else "  "), i, json.dumps(e))
print(cnt)
