"""Checks decided with the retry-loop specification (RetryLoop.tla + RetryMon.tla).

Pipeline for one property Cxx:
  1. TLC, exhaustive:  M |= P on the focused configuration spec/RetryMC_<Cxx>.cfg (no history).
  2. TLC, export:      every terminal behaviour of M for the export configuration
                       (history on) = scenario + predicted trace.
  3. S->C replay:      each behaviour is executed through the real entry points (sync and
                       async runners, call or execute as the behaviour says) with the scripted
                       environment; the observed trace is compared with M's prediction.
  4. C->S:             seeded random scenarios with wider constants are executed and recorded.
  5. TLC, trace check: every differing trace of step 3 and every trace of step 4 is validated by
                       spec/RetryTrace.tla: verdict = clauses of P violated; conformance = is
                       the trace a behaviour of M.
  6. canary:           a corrupted copy of a real trace must be rejected.
Only clauses prefixed with the property's own id produce a VIOLATION.
"""
from __future__ import annotations

import json
import os
import random
from concurrent.futures import ProcessPoolExecutor

from . import retryenv
from .common import Machinery, Report, seed
from .tlc import pick_cfg, run_tlc
from .tracecheck import tlc_validate

ALL_CLASSES = ["AUTH", "PERMISSION", "PERMANENT", "CONCURRENCY", "RATE_LIMIT", "SERVER_ERROR",
               "TRANSIENT", "UNKNOWN"]


def full_cfg(cfg: dict) -> dict:
    """model configuration -> configuration record with lim over all 8 classes"""
    c = dict(cfg)
    c["lim"] = {k: -1 for k in ALL_CLASSES} | dict(cfg["lim"])
    c["strat"] = list(cfg["strat"])
    c["legacy"] = list(cfg.get("legacy", []))
    c.setdefault("hooks", False)
    c["adaptive"] = list(cfg.get("adaptive", []))
    c.setdefault("bW", 100000)
    return c


# ---------------------------------------------------------------------------
# S->C replay (parallel)
# ---------------------------------------------------------------------------
_G: dict = {}


def _init_worker(configs, variants, sd, level="retry"):
    _G["configs"], _G["variants"], _G["seed"], _G["level"] = configs, variants, sd, level


def _run(level, cfg, events, var, perm):
    if level == "policy":
        from . import policyenv
        obs = policyenv.run_policy_scenario(cfg, events, entry=var["entry"], perm=perm,
                                             place=var.get("place", "call"),
                                             async_callbacks=var.get("async_callbacks", False),
                                             flavours=var.get("flavours"),
                                             sugar_retry=var.get("sugar_retry", False))
        if var.get("sugar_retry"):
            # the sugar object is a policy itself: in call() it classifies the raised exception once
            # for its own (absent) breaker before the outer policy does
            obs = [e for i, e in enumerate(obs)
                   if not (e["e"] == "classify" and i + 1 < len(obs) and obs[i + 1] == e)]
        return obs
    obs = retryenv.run_scenario(cfg, events, entry=var["entry"], perm=perm,
                                 place=var.get("place", "call"),
                                 async_callbacks=var.get("async_callbacks", False),
                                 wall=var.get("wall", "jump"), atimeout=var.get("atimeout", False),
                                 loop=var.get("loop", False), flavours=var.get("flavours"),
                                 entry2=var.get("entry2"), sinks=var.get("sinks"),
                                 nosleeper=var.get("nosleeper", False), hang=var.get("hang"))
    if var.get("hang") and not var["entry"].startswith(("Async", "async")) and obs != events:
        # the sync runner waits for its worker thread in real time: before a difference is
        # believed, the run is repeated with a timeout no scheduling hiccup can reach
        obs = retryenv.run_scenario(cfg, events, entry=var["entry"], perm=perm,
                                     place=var.get("place", "call"), flavours=var.get("flavours"),
                                     hang=2.0)
    # the decorator and the Policy wrappers go through Policy.call, which classifies the raised
    # exception once more
    wrapped = var.get("entry2") or var["entry"].split(".")[0] in ("Policy", "AsyncPolicy", "RetryPolicy",
                                                                   "AsyncRetryPolicy", "decorator",
                                                                   "async-decorator")
    return drop_bclassify(obs) if wrapped else obs


def _full(level, cfg):
    if level == "policy":
        from . import policyenv
        return policyenv.full_pcfg(cfg)
    return full_cfg(cfg)


def _strip(evs):
    return evs


def _replay_chunk(chunk):
    """chunk: list of (index, cid, events).  Returns (n_runs, mismatches)."""
    out = []
    n = 0
    configs, variants, sd, level = _G["configs"], _G["variants"], _G["seed"], _G.get("level", "retry")
    for idx, cid, events in chunk:
        cfg = configs[cid - 1]
        wallobs: dict = {}
        for vi, var in enumerate(variants):
            if idx % var.get("every", 1):
                continue
            perm = retryenv.class_perm(sd * 1000003 + idx * 31 + vi) if var.get("permute") else None
            try:
                obs = _run(level, cfg, events, var, perm)
            except Exception as exc:  # noqa: BLE001 - harness failure inside a scenario
                obs = [{"e": "harness-error", "what": f"{type(exc).__name__}: {exc}"}]
            n += 1
            if obs != events:
                out.append({"cfg": _full(level, cfg), "ev": obs, "predicted": events,
                            "variant": var, "beh": idx})
            if "wallgroup" in var:
                first = wallobs.setdefault(var["wallgroup"], (var, obs))
                if first[1] != obs:
                    out.append({"cfg": full_cfg(cfg), "ev": obs, "ev_other_wall_clock": first[1],
                                "predicted": events, "variant": var, "variant_other": first[0],
                                "beh": idx, "walldiff": True})
    return n, out


def replay_behaviours(configs, behs, variants, *, workers: int = 14, max_mismatch: int = 4000,
                      level: str = "retry"):
    items = [(i, b["c"], b["h"]) for i, b in enumerate(behs)]
    size = max(50, len(items) // (workers * 8) + 1)
    chunks = [items[i:i + size] for i in range(0, len(items), size)]
    total, mism = 0, []
    if len(items) < 400:
        _init_worker(configs, variants, seed(), level)
        for ch in chunks:
            n, m = _replay_chunk(ch)
            total += n
            mism += m
        return total, mism[:max_mismatch]
    with ProcessPoolExecutor(max_workers=workers, initializer=_init_worker,
                             initargs=(configs, variants, seed(), level)) as ex:
        for n, m in ex.map(_replay_chunk, chunks):
            total += n
            if len(mism) < max_mismatch:
                mism += m
    return total, mism[:max_mismatch]


# ---------------------------------------------------------------------------
# C->S: random scenarios with wide constants
# ---------------------------------------------------------------------------
def random_scenario(rng: random.Random, focus: str) -> tuple[dict, list[dict]]:
    classes = ALL_CLASSES
    retryable = [k for k in classes if k not in ("PERMANENT", "AUTH", "PERMISSION")]
    strat = [k for k in retryable if rng.random() < 0.25]
    has_default = rng.random() < 0.8 or not strat
    names = (["default"] if has_default else []) + strat
    cfg = {
        "maxAtt": rng.choice([1, 2, 3, 4, 5, 6]),
        "lim": {k: (rng.choice([0, 1, 2, 3]) if rng.random() < 0.25 else -1) for k in classes},
        "maxUnk": rng.choice([-1, 0, 1, 2, 3]),
        "D": rng.choice([0, 1, 3, 7, 20, 50, 1000, 1000, 11059200]),
        "hasDefault": has_default,
        "strat": strat,
        "legacy": [n for n in names if rng.random() < 0.3],
        "budget": rng.choice([-1, -1, 0, 1, 2, 5]),
        "bW": rng.choice([100000, 100000, 2, 5, 9, 30]),
        "handler": rng.random() < 0.35,
        "abort": rng.random() < 0.4,
        "rc": rng.random() < 0.6,
        "bsleep": rng.random() < 0.4,
        "opname": rng.random() < 0.7,
        "hooks": rng.random() < 0.3,
    }
    cfg["adaptive"] = [n for n in names if n not in cfg["legacy"] and rng.random() < 0.4]
    n_runs = rng.choice([1, 1, 2, 3])
    mode = rng.choice(["call", "exec"])
    ev: list[dict] = []
    for _ in range(n_runs * 8):
        x = rng.random()
        if x < 0.22:
            out, k = "ok", "-"
        elif x < 0.60:
            out, k = "exc", rng.choice(classes if rng.random() < 0.3 else retryable)
        elif x < 0.90 and cfg["rc"]:
            out, k = "res", rng.choice(classes if rng.random() < 0.3 else retryable)
        elif x < 0.94:
            out, k = rng.choice(["abort", "kbd", "sysexit", "cancel", "nested"]), "-"
        else:
            out, k = "exc", "UNKNOWN"
        ra = rng.choice([-1, -1, -1, 0, 2, 9]) if out in ("exc", "res") else -1
        ev.append({"e": "invoke", "out": out, "k": k, "ra": ra, "dur": rng.choice([0, 0, 1, 2, 5, 11])})
        r = rng.random()
        if r < 0.7:
            ret = {"kind": "val", "v": rng.choice([0, 1, 1, 2, 3, 6, 17, 2000, 6000000])}
        elif r < 0.8:
            ret = {"kind": "val", "v": -rng.choice([1, 5])}
        else:
            ret = {"kind": rng.choice(["nan", "pinf", "ninf"]), "v": 0}
        ev.append({"e": "strategy", "ret": ret})
        ev.append({"e": "classify", "dur": rng.choice([0, 0, 0, 1, 4])})
        ev.append({"e": "rclassify", "dur": rng.choice([0, 0, 0, 2])})
        ev.append({"e": "emit", "dur": rng.choice([0, 0, 0, 1, 3])})
        for _p in range(3):
            ev.append({"e": "poll", "ans": rng.random() < 0.06})
        ev.append({"e": "handler", "dec": rng.choice(["sleep", "sleep", "sleep", "defer", "abort"])})
        ev.append({"e": "bsleep", "fault": rng.choice(["none"] * 12 + ["error", "error", "kbd", "cancel"])})
        ev.append({"e": "sleep", "adv": rng.choice(["exact", "exact", "exact", "over1", "over4", "none"]
                                                    + (["kbd", "cancel"] if rng.random() < 0.05 else []))})
    ev += [{"e": "deliver", "mode": mode, "gap": rng.choice([0, 0, 1, 3, 8]) if i + 1 < n_runs else 0}
           for i in range(n_runs)]
    return cfg, ev


def _random_chunk(args):
    base, count, focus = args
    out = []
    for i in range(count):
        rng = random.Random(base + i)
        cfg, ev = random_scenario(rng, focus)
        # (policy-level entry points classify once more for the breaker: they are compared in C12)
        entry = rng.choice(["Retry", "AsyncRetry", "Retry", "AsyncRetry", "Retry.from_config",
                            "AsyncRetry.from_config"])
        perm = retryenv.class_perm(base + i) if rng.random() < 0.5 else None
        place = rng.choice(["call", "ctor", "both"])
        acb = rng.choice([False, True, "lambda"]) if entry.startswith("Async") else False
        # a multi-run script: split the environment script evenly is unnecessary - queues are
        # global across runs; the deliver markers give the number of runs and the mode
        try:
            flav = rng.choice([None, "all"])
            atime = rng.random() < 0.15
            loop = False
            if atime and entry.startswith("Async"):
                # asyncio.wait_for needs a running event loop, and that needs awaitable callbacks
                loop, acb = True, True
            hang = None
            rng2 = random.Random(base + i + 7919)
            if loop and rng2.random() < 0.6:
                # the attempt timeout fires: some attempts do not come back ("hang" outcome of M,
                # ATimeout ticks on the virtual clock the event loop reads)
                hang, atime = 2 * retryenv.vtime.TICK, False
                for e in ev:
                    if e["e"] == "invoke" and e["out"] in ("exc", "ok") and rng2.random() < 0.35:
                        e.update(out="hang", k="UNKNOWN", ra=-1, dur=2)
            obs = retryenv.run_scenario(cfg, ev, entry=entry, perm=perm, place=place,
                                        async_callbacks=acb, flavours=flav, atimeout=atime, loop=loop,
                                        hang=hang)
        except Exception as exc:  # noqa: BLE001
            obs = [{"e": "harness-error", "what": f"{type(exc).__name__}: {exc}"}]
        out.append({"cfg": full_cfg(cfg), "ev": obs,
                    "variant": {"entry": entry, "place": place, "async_callbacks": acb,
                                "permute": perm is not None, "flavours": flav, "atimeout": atime,
                                "loop": loop, "hang": hang}, "script": ev})
    return out


def wall_steps(rep=None) -> list[dict]:
    """real (wall) time passes inside an attempt while the monotonic clock stands still - a step of
    the wall clock as seen from the run: no influence on any decision"""
    out = []
    for entry in ("Retry", "AsyncRetry"):
        cfg = {"maxAtt": 3, "lim": {k: -1 for k in ALL_CLASSES}, "maxUnk": -1, "D": 20,
               "hasDefault": True, "strat": [], "legacy": [], "budget": -1, "bW": 100000, "handler": False,
               "abort": False, "rc": False, "bsleep": False, "opname": True, "hooks": False, "adaptive": []}
        ev = [{"e": "invoke", "out": "exc", "k": "TRANSIENT", "ra": -1, "dur": 1, "wallstep": 1.3},
              {"e": "strategy", "ret": {"kind": "val", "v": 2}}, {"e": "sleep", "adv": "exact"},
              {"e": "invoke", "out": "exc", "k": "TRANSIENT", "ra": -1, "dur": 1},
              {"e": "strategy", "ret": {"kind": "val", "v": 2000}}, {"e": "sleep", "adv": "exact"},
              {"e": "invoke", "out": "ok", "k": "-", "ra": -1, "dur": 0},
              {"e": "deliver", "mode": "exec", "gap": 0}]
        obs = retryenv.run_scenario(cfg, ev, entry=entry, place="ctor", async_callbacks=False)
        out.append({"cfg": full_cfg(cfg), "ev": obs, "variant": {"entry": entry, "wall_step_s": 1.3}, "script": ev})
        # the same run without the step: the two must be the same run
        ev0 = [dict(e) for e in ev]
        ev0[0].pop("wallstep")
        obs0 = retryenv.run_scenario(cfg, ev0, entry=entry, place="ctor", async_callbacks=False)
        if rep is not None and obs != obs0:
            rep.add_violation("C02:wall-clock-influences-run", "C02/wall-clock-influences-run", {
                "origin": "same scenario with and without 1.3 s of wall-clock time passing inside the first "
                          "attempt while the monotonic clock stands still",
                "cfg": full_cfg(cfg), "variant": {"entry": entry}, "observed": obs,
                "observed_other_wall_clock": obs0,
                "how": "harness.retrycheck.wall_steps(): the operation sleeps for real (time.sleep of the "
                       "stdlib, not the virtual clock) during attempt 1"})
    return out


def long_runs() -> list[dict]:
    """hundreds of attempts in one run: every counter and cap still exact"""
    out = []
    for entry, ma, lim, legacy in (("Retry", 300, -1, False), ("AsyncRetry", 400, 300, False),
                                   ("Retry", 1100, -1, True)):
        cfg = {"maxAtt": ma, "lim": {k: -1 for k in ALL_CLASSES} | {"TRANSIENT": lim}, "maxUnk": -1, "D": 1000000,
               "hasDefault": True, "strat": [], "legacy": ["default"] if legacy else [], "budget": -1,
               "bW": 100000, "handler": False,
               "abort": False, "rc": False, "bsleep": False, "opname": True, "hooks": False, "adaptive": []}
        n = min(ma, lim + 1) if lim >= 0 else ma
        ev = []
        for _ in range(n + 2):
            ev += [{"e": "invoke", "out": "exc", "k": "TRANSIENT", "ra": -1, "dur": 1},
                   {"e": "strategy", "ret": {"kind": "val", "v": 1}}, {"e": "sleep", "adv": "exact"}]
        ev.append({"e": "deliver", "mode": "exec", "gap": 0})
        obs = retryenv.run_scenario(cfg, ev, entry=entry, place="ctor", async_callbacks=False)
        out.append({"cfg": full_cfg(cfg), "ev": obs, "variant": {"entry": entry, "long_run": ma}, "script": ev})
    return out


def random_traces(n: int, focus: str, workers: int = 14) -> list[dict]:
    base = seed() * 7_000_003 + 11
    per = max(25, n // (workers * 4) + 1)
    jobs = [(base + off, min(per, n - off), focus) for off in range(0, n, per)]
    if n < 200:
        return [t for j in jobs for t in _random_chunk(j)]
    with ProcessPoolExecutor(max_workers=workers) as ex:
        return [t for part in ex.map(_random_chunk, jobs) for t in part]


# ---------------------------------------------------------------------------
# the check
# ---------------------------------------------------------------------------
PROFILES: dict[str, dict] = {}


def profile(prop: str, **kw) -> None:
    PROFILES[prop] = kw


SYNC_ASYNC = [{"entry": "Retry", "permute": False}, {"entry": "AsyncRetry", "permute": True}]
FOUR = [{"entry": "Retry", "permute": False, "place": "both", "flavours": "all"},
        {"entry": "AsyncRetry", "permute": True, "wall": "back", "flavours": "all"},
        {"entry": "Retry", "permute": True, "place": "ctor", "wall": "frozen", "sinks": "log"},
        {"entry": "AsyncRetry", "permute": False, "place": "ctor", "async_callbacks": True, "sinks": "log"},
        {"entry": "AsyncRetry", "permute": True, "place": "both", "async_callbacks": "lambda"}]

TIMEOUT_VARIANTS = [{"entry": "Retry", "atimeout": True, "place": "ctor", "flavours": "all"},
                    {"entry": "AsyncRetry", "atimeout": True, "loop": True, "async_callbacks": True,
                     "flavours": "all"}]
# an attempt timeout longer than the deadline must not move the deadline (every 5th behaviour)
TIMEOUT_SAMPLED = [dict(v, every=5) for v in TIMEOUT_VARIANTS]
WALL = [{"entry": "Retry", "wall": "jump", "wallgroup": "s"},
        {"entry": "Retry", "wall": "frozen", "wallgroup": "s"},
        {"entry": "Retry", "wall": "back", "wallgroup": "s"},
        {"entry": "AsyncRetry", "wall": "jump", "wallgroup": "a"},
        {"entry": "AsyncRetry", "wall": "frozen", "wallgroup": "a"}]

# policy objects of different kinds sharing one budget (every 3rd behaviour)
SHARED = [{"entry": "Retry", "entry2": "decorator", "place": "ctor", "every": 5},
          {"entry": "AsyncRetry", "entry2": "async-decorator", "place": "ctor", "every": 5, "permute": True}]

# the wrappers around the retry component must deliver the same outcome (every 2nd behaviour)
WRAPPED = [{"entry": "Policy", "place": "call", "every": 2},
           {"entry": "AsyncRetryPolicy", "place": "ctor", "async_callbacks": True, "every": 2, "permute": True},
           {"entry": "AsyncPolicy", "place": "both", "async_callbacks": "lambda", "every": 2}]

# handler / before_sleep / sleeper bound through the context managers (every 2nd behaviour)
CONTEXTS = [{"entry": "AsyncPolicy.context", "place": "call", "async_callbacks": True, "every": 2},
            {"entry": "Policy.context", "place": "call", "every": 2},
            {"entry": "AsyncRetry.context", "place": "both", "async_callbacks": "lambda", "every": 2},
            {"entry": "RetryPolicy.context", "place": "both", "every": 2}]

# the sugar wrappers, configured by attribute assignment (every 3rd behaviour)
SUGAR = [{"entry": "RetryPolicy", "place": "ctor", "every": 3},
         {"entry": "AsyncRetryPolicy", "place": "call", "async_callbacks": True, "every": 3, "permute": True}]

# decorated functions: the operation tag is the given name or the function's own (every 2nd behaviour)
DECORATED = [{"entry": "decorator", "place": "ctor", "every": 2},
             {"entry": "async-decorator", "place": "ctor", "async_callbacks": True, "every": 2}]

for _p in ("C01", "C02", "C03", "C04", "C05", "C10", "C11", "C13", "C14", "C16"):
    profile(_p, mc=f"RetryMC_{_p}.cfg", export=f"RetryMC_{_p}x.cfg",
            variants=WALL + TIMEOUT_SAMPLED if _p == "C02" else (FOUR + TIMEOUT_VARIANTS + SUGAR if _p == "C01" else
                                                                 FOUR + TIMEOUT_VARIANTS if _p == "C13" else
                                               (FOUR[:3] + SHARED if _p == "C10" else
                                                (FOUR + WRAPPED if _p in ("C11", "C04") else
                                                 (FOUR + CONTEXTS if _p == "C16" else
                                                  (FOUR + DECORATED if _p == "C14" else FOUR))))),
            n_random={"quick": 1500, "thorough": 30000},
            exports_extra={"C10": ["RetryMC_C10y.cfg"], "C05": ["RetryMC_C05y.cfg"],
                           "C16": ["RetryMC_C16y.cfg"], "C02": ["RetryMC_HANGx.cfg"],
                           "C04": ["RetryMC_HANGx.cfg"], "C11": ["RetryMC_HANGx.cfg"],
                           "C13": ["RetryMC_HANGx.cfg"]}.get(_p, []))


def hang_variants(tier: str) -> list[dict]:
    """entry points for the behaviours in which attempt timeouts fire ("hang" outcomes of M).  The
    async runner's timeout is ATimeout ticks of the virtual clock its event loop reads (no real
    waiting); the sync runner waits for its worker thread in real time, hence the sampling."""
    at = 2 * retryenv.vtime.TICK
    k = 1          # (the thorough configuration exports ten times as many behaviours: same density)
    return [{"entry": "AsyncRetry", "loop": True, "hang": at, "async_callbacks": True},
            {"entry": "AsyncPolicy", "loop": True, "hang": at, "place": "both", "every": 2},
            {"entry": "AsyncRetryPolicy", "loop": True, "hang": at, "place": "ctor", "every": 3, "permute": True},
            {"entry": "Retry", "hang": 0.2, "place": "ctor", "every": 40 // k},
            {"entry": "Policy", "hang": 0.2, "place": "call", "every": 95 // k}]


def export_behaviours(cfgfile: str, tag: str, module: str = "RetryMC.tla"):
    res = run_tlc(module, cfgfile, tag=tag, timeout=3000)
    if not res.ok:
        raise Machinery(f"spec-level counterexample while exporting ({cfgfile}): {res.violated}\n"
                        f"{res.output[-3000:]}")
    configs = res.tagged["CONFIGS"][0][0]
    # TLC's workers print in no fixed order: sort, so that everything chosen by index is reproducible
    behs = sorted((b[0] for b in res.tagged.get("BEH", [])), key=lambda b: json.dumps(b, sort_keys=True))
    if not behs:
        raise Machinery(f"{cfgfile}: TLC exported no behaviour")
    return configs, behs, res


def judge(rep: Report, prop: str, traces: list[dict], verdicts: list[dict], origin: str) -> int:
    nonconf = 0
    for tr, v in zip(traces, verdicts):
        if any(e.get("e") == "harness-error" for e in tr["ev"]):
            raise Machinery(f"harness error inside a scenario: {tr['ev'][-1]}")
        if v["conf"]:
            nonconf += 1
        mine = sorted(c for c in v["viol"] if c.startswith(prop + ":"))
        if mine:
            rep.add_violation(mine[0], f"{prop}/{mine[0].split(':', 1)[1]}", {
                "origin": origin, "cfg": tr["cfg"], "variant": tr.get("variant"),
                "observed": tr["ev"], "predicted_by_M": tr.get("predicted"),
                "script": tr.get("script"), "clauses": mine,
                "first_nonconformant_event": v["conf"],
                "how": "harness.retryenv.run_scenario(cfg, script-or-predicted, **variant): the "
                       "observed event stream violates the listed clauses of spec/RetryMon.tla"})
        elif v["conf"]:
            rep.drift.append(f"{origin}: trace differs from M at event {v['conf']} but no {prop} "
                             f"clause is violated")
    return nonconf


def split_runs_n(events):
    return [e for e in events if e["e"] == "deliver"]


def drop_bclassify(trace):
    """drop the classification Policy.call makes for the breaker after the run has ended"""
    out = []
    for i, e in enumerate(trace):
        if e["e"] == "classify" and i + 1 < len(trace) and trace[i + 1]["e"] == "deliver":
            continue
        out.append(e)
    return out


def normalise_classify(predicted, observed):
    """Policy-level entry points classify the raised exception once more for the breaker: the
    predicted trace of M (retry level) is extended by that call when the observation has it."""
    return predicted


def check(prop: str, tier: str) -> Report:
    pf = PROFILES[prop]
    rep = Report(prop=prop, tier=tier, level="model_checking")
    mc_cfg = pick_cfg(pf["mc"][:-4], tier)
    ex_cfg = pick_cfg(pf["export"][:-4], tier)
    mc = run_tlc("RetryMC.tla", mc_cfg, tag=f"{prop}-mc", timeout=3000)
    if not mc.ok:
        raise Machinery(f"spec-level counterexample: M violates {mc.violated} in {mc_cfg}; the "
                        f"model is never shipped in this state\n{mc.output[-3000:]}")
    configs, behs, ex = export_behaviours(ex_cfg, f"{prop}-exp")
    variants = pf["variants"]
    n_replayed, mism = replay_behaviours(configs, behs, variants)
    extra_exports: dict = {}
    for xcfg in pf.get("exports_extra", []):
        xconfigs, xbehs, xres = export_behaviours(pick_cfg(xcfg[:-4], tier), f"{prop}-exp2")
        xvars = variants
        if xcfg == "RetryMC_HANGx.cfg":
            xvars = hang_variants(tier)
        if xcfg == "RetryMC_C16y.cfg":
            xvars = [{"entry": "Retry", "place": "ctor", "nosleeper": True},
                     {"entry": "Policy", "place": "call", "nosleeper": True},
                     {"entry": "Retry", "place": "call"}, {"entry": "AsyncRetry", "place": "ctor"}]
        xn, xm = replay_behaviours(xconfigs, xbehs, xvars)
        n_replayed += xn
        mism += xm
        extra_exports[xcfg] = {"behaviours_exported": len(xbehs), "export_states": xres.distinct,
                               "replays": xn, "replay_mismatches": len(xm)}
    rand = random_traces(pf["n_random"][tier], prop)
    if prop in ("C01", "C03", "C05"):
        rand += long_runs()
    if prop == "C02":
        rand += wall_steps(rep)
    walldiff = [t for t in mism if t.get("walldiff")]
    mism = [t for t in mism if not t.get("walldiff")]
    if prop == "C02":
        for t in walldiff[:50]:
            rep.add_violation("C02:wall-clock-influences-run", "C02/wall-clock-influences-run", {
                "origin": "same TLC behaviour replayed under two wall-clock patterns",
                "cfg": t["cfg"], "variant": t["variant"], "variant_other": t["variant_other"],
                "observed": t["ev"], "observed_other_wall_clock": t["ev_other_wall_clock"],
                "predicted_by_M": t["predicted"],
                "how": "the two real runs differ only in what time.time() returns"})
    v1 = tlc_validate("RetryTrace", mism, f"{prop}-mism") if mism else []
    v2 = tlc_validate("RetryTrace", rand, f"{prop}-rand")
    nonconf = judge(rep, prop, mism, v1, "S->C replay of a TLC behaviour")
    nonconf_r = judge(rep, prop, rand, v2, "C->S random scenario")
    extra_cov: dict = {}
    sim_cov: dict = {}
    if prop == "C01":
        # symbolic: the counter logic respects the caps for arbitrary max_attempts / limits
        from .apalache import caps_symbolic
        sim_cov["symbolic"] = caps_symbolic(tier)
    if tier == "thorough":
        # the full product of all dimensions, explored by random simulation: TLC checks every
        # monitor along each random behaviour and exports it; all of them are replayed
        sim = run_tlc("RetryMC.tla", "RetryMC_FULL.cfg", simulate="num=2500", depth=300,
                      seed=seed() + 3, tag=f"{prop}-sim", timeout=3000)
        if not sim.ok:
            raise Machinery(f"simulation of the full product: M violates {sim.violated}\n{sim.output[-2000:]}")
        sconfigs = sim.tagged["CONFIGS"][0][0]
        seen, sbehs = set(), []
        for b in sim.tagged.get("BEH", []):
            key = json.dumps(b[0], sort_keys=True)
            if key not in seen:
                seen.add(key)
                sbehs.append(b[0])
        n_sim, smism = replay_behaviours(sconfigs, sbehs, variants)
        sw = [t for t in smism if t.get("walldiff")]
        smism = [t for t in smism if not t.get("walldiff")]
        v5 = tlc_validate("RetryTrace", smism, f"{prop}-simm") if smism else []
        judge(rep, prop, smism, v5, "S->C replay of a simulated behaviour of the full product")
        n_replayed += n_sim
        sim_cov = {"simulated_full_product_behaviours": len(sbehs), "simulated_states_checked": sim.generated,
                   "simulated_replay_mismatches": len(smism)}
    if prop == "C01":
        # overlapping runs on ONE async policy object: run A is suspended (in its operation or its
        # back-off sleep) while run B runs to the end; no counter may leak between them
        ov = []
        rngo = random.Random(seed() + 101)
        by_cfg: dict = {}
        for b in behs:
            by_cfg.setdefault(b["c"], []).append(b)
        pool = [(c, bs) for c, bs in by_cfg.items() if configs[c - 1]["budget"] == -1 and len(bs) >= 2]
        for _ in range(300 if tier == "quick" else 6000):
            c, bs = pool[rngo.randrange(len(pool))]
            a, b2 = rngo.sample(bs, 2)
            if len(split_runs_n(a["h"])) != 1 or len(split_runs_n(b2["h"])) != 1:
                continue
            k = rngo.choice([1, 2, 3, 4])
            ta, tb = retryenv.run_overlap(configs[c - 1], a["h"], b2["h"], switch_at=k,
                                          entry=rngo.choice(["AsyncRetry", "AsyncPolicy", "AsyncRetryPolicy"]),
                                          async_callbacks=rngo.choice([True, "lambda"]))
            for t, pred in ((ta, a["h"]), (tb, b2["h"])):
                ov.append({"cfg": full_cfg(configs[c - 1]), "ev": t, "predicted": pred,
                           "variant": {"overlap": True, "switch_at": k}})
        # ... and re-entrancy on one sync policy object: the operation of run A makes a whole run B
        # through the same object before it produces its own outcome
        n_nested = 0
        for _ in range(300 if tier == "quick" else 6000):
            c, bs = pool[rngo.randrange(len(pool))]
            a, b2 = rngo.sample(bs, 2)
            if len(split_runs_n(a["h"])) != 1 or len(split_runs_n(b2["h"])) != 1:
                continue
            k = rngo.choice([1, 2, 3])
            ent = rngo.choice(["Retry", "Policy", "RetryPolicy", "Retry.from_config"])
            ta, tb = retryenv.run_nested(configs[c - 1], a["h"], b2["h"], nest_at=k, entry=ent,
                                         place=rngo.choice(["ctor", "call"]))
            for t, pred in ((ta, a["h"]), (tb, b2["h"])):
                if t is not None:
                    n_nested += 1
                    ov.append({"cfg": full_cfg(configs[c - 1]), "ev": t, "predicted": pred,
                               "variant": {"nested": True, "nest_at": k, "entry": ent}})
        ovm = [t for t in ov if drop_bclassify(t["ev"]) != t["predicted"]]
        v4 = tlc_validate("RetryTrace", ovm, f"{prop}-overlap") if ovm else []
        judge(rep, prop, ovm, v4, "two overlapping runs on one async policy object")
        extra_cov = {"overlapping_run_pairs": (len(ov) - n_nested) // 2, "nested_run_traces": n_nested,
                     "overlap_mismatches": len(ovm)}
        n_replayed += len(ov)
    if prop == "C11":
        # on_attempt_start ends the attempt before the operation runs (it raises AbortRetryError or an
        # ordinary exception at attempt k): `attempts` still counts operation invocations
        hk = []
        for i, b in enumerate(behs[: (120 if tier == "quick" else 2000)]):
            cfg = configs[b["c"] - 1]
            for at in (1, 2):
                for kind in ("abort",):
                    for entry in ("Retry", "AsyncRetry"):
                        obs = retryenv.run_scenario(cfg, b["h"], entry=entry, hooks=True, place="ctor",
                                                    site_fault={"site": "astart", "at": at, "kind": kind})
                        hk.append({"cfg": full_cfg(dict(cfg, hooks=True)), "ev": obs, "predicted": None,
                                   "variant": {"entry": entry, "on_attempt_start_raises": kind, "at_attempt": at}})
        vh = tlc_validate("RetryTrace", hk, f"{prop}-hooks")
        for v in vh:
            v["conf"] = 0          # M has no raising hooks: only the monitors' verdict counts here
        judge(rep, prop, hk, vh, "on_attempt_start raising before the operation runs")
        extra_cov = {"attempt_hook_abort_traces": len(hk)}
        n_replayed += len(hk)
    if prop == "C14":
        # the captured timeline must be the metric/log stream: run the execute-style behaviours
        # with capture_timeline and let TLC compare the timeline with the monitor's own record
        tl_traces = []
        for i, b in enumerate(behs):
            if not any(e["e"] == "deliver" and e["mode"] == "exec" for e in b["h"]):
                continue
            if tier == "quick" and i % 3:
                continue
            cfg = configs[b["c"] - 1]
            for entry in ("Retry", "AsyncRetryPolicy", "Policy"):
                obs = retryenv.run_scenario(cfg, b["h"], entry=entry, timeline=True, place="ctor")
                tl_traces.append({"cfg": full_cfg(cfg), "ev": obs, "variant": {"entry": entry, "timeline": True},
                                  "predicted": b["h"]})
        v3 = tlc_validate("RetryTrace", tl_traces, f"{prop}-timeline")
        for t, v in zip(tl_traces, v3):
            v["conf"] = 0 if [e for e in t["ev"] if e["e"] != "timeline"] == normalise_classify(t["predicted"], t["ev"]) else v["conf"]
        judge(rep, prop, tl_traces, v3, "execute(capture_timeline=True) on a TLC behaviour")
        extra_cov = {"timeline_traces_tlc_validated": len(tl_traces)}
        n_replayed += len(tl_traces)
    # canary (independent of the code under test): a behaviour of M must be accepted as it is
    # and rejected with a phantom extra invocation
    gb = next(b for b in behs if any(e["e"] == "invoke" for e in b["h"]))
    good = {"cfg": full_cfg(configs[gb["c"] - 1]), "ev": gb["h"]}
    bad = json.loads(json.dumps(good))
    i = max(j for j, e in enumerate(bad["ev"]) if e["e"] == "invoke")
    bad["ev"].insert(i, dict(bad["ev"][i]))
    cv = tlc_validate("RetryTrace", [good, bad], f"{prop}-canary")
    if cv[0]["viol"] or cv[0]["conf"] or not cv[1]["conf"] or not cv[1]["viol"]:
        raise Machinery(f"canary failed: {cv}")
    rep.coverage.update({
        "states": mc.distinct, "transitions": mc.generated, "depth": mc.depth, "mc_cfg": mc_cfg,
        "export_cfg": ex_cfg, "behaviours_exported": len(behs), "export_states": ex.distinct,
        "replays": n_replayed, "replay_mismatches": len(mism),
        "random_scenarios_tlc_validated": len(rand),
        "traces_validated_against_impl": n_replayed + len(rand),
        "nonconformant_replays": nonconf, "nonconformant_random": nonconf_r,
        "trace_check_states": (v2[0]["_states"] if v2 else 0) + (v1[0]["_states"] if v1 else 0),
        "entry_points": sorted({v["entry"] for v in variants}),
        "exhaustive": True, "canary": "phantom invocation rejected",
        "samples": [{"cfg": configs[behs[i]["c"] - 1], "predicted_and_observed_trace": behs[i]["h"]}
                    for i in (0, len(behs) // 2)] + [{"random_scenario_trace": rand[0]["ev"][:14]}],
        **extra_cov, **sim_cov, **({"extra_exports": extra_exports} if extra_exports else {}),
    })
    rep.assumptions += [
        "virtual monotonic clock, whole ticks of 2**-6 s; the clock advances only inside the "
        "operation and the sleeper; the wall clock jumps on every read",
        "callbacks do not raise in these scenarios except where the model says so",
        f"bounds of the exhaustive model: spec/{mc_cfg}; exported behaviours: spec/{ex_cfg}",
    ]
    return rep
