"""Thin wrapper around TLC: run a spec, collect tagged PrintT lines, parse statistics.

Everything that is *decided* in this framework is decided by a TLC run started here:
  * model checking M |= P (run_mc),
  * export of behaviours / transition graphs of M (tagged PrintT lines),
  * validation of traces recorded from the real code (run_trace).
"""
from __future__ import annotations

import json
import os
import re
import shutil
import subprocess
import time
from dataclasses import dataclass, field
from pathlib import Path

VERIF = Path(__file__).resolve().parent.parent
SPEC = VERIF / "spec"
WORK = VERIF / ".work"
JAR = "/opt/veriftools/tla/tla2tools.jar:/opt/veriftools/tla/CommunityModules-deps.jar"


def pick_cfg(base: str, tier: str) -> str:
    """spec/<base>_thorough.cfg for the thorough tier when it exists, else spec/<base>.cfg"""
    if tier == "thorough" and (SPEC / f"{base}_thorough.cfg").exists():
        return f"{base}_thorough.cfg"
    return f"{base}.cfg"


class TLCError(RuntimeError):
    """Machinery failure (parse error, crash, timeout): never a property verdict."""


@dataclass
class TLCResult:
    ok: bool                      # no invariant / property violated, no error
    generated: int = 0
    distinct: int = 0
    depth: int = 0
    wall_s: float = 0.0
    violated: list[str] = field(default_factory=list)   # names of violated invariants/properties
    tagged: dict[str, list] = field(default_factory=dict)  # tag -> list of decoded payloads
    coverage: dict[str, int] = field(default_factory=dict)  # action name -> distinct states found
    output: str = ""
    cmd: str = ""


_TAG_RE = re.compile(r'^<<"([A-Z_]+)", (.*)>>$')


def _decode_tla_value(txt: str):
    """Decode the payload of a tagged PrintT tuple: a sequence of TLA+ strings / ints / sets
    of strings / booleans printed on one line.  Strings holding JSON are decoded as JSON."""
    out = []
    i = 0
    n = len(txt)
    while i < n:
        ch = txt[i]
        if ch in ", ":
            i += 1
            continue
        if ch == '"':
            j = i + 1
            buf = []
            while txt[j] != '"':
                if txt[j] == "\\":
                    buf.append(txt[j:j + 2])
                    j += 2
                else:
                    buf.append(txt[j])
                    j += 1
            raw = json.loads('"' + "".join(buf) + '"')
            if raw[:1] in "[{" and raw[-1:] in "]}":
                try:
                    raw = json.loads(raw)
                except ValueError:
                    pass
            out.append(raw)
            i = j + 1
        elif ch == "{":
            j = txt.index("}", i)
            inner = txt[i + 1:j].strip()
            out.append(sorted(json.loads("[" + inner + "]")) if inner else [])
            i = j + 1
        else:
            j = i
            while j < n and txt[j] not in ", ":
                j += 1
            tok = txt[i:j]
            if tok == "TRUE":
                out.append(True)
            elif tok == "FALSE":
                out.append(False)
            else:
                out.append(int(tok))
            i = j
    return out


def run_tlc(module: str, cfg: str, *, workers: int | str = "auto", simulate: str | None = None,
            depth: int | None = None, seed: int | None = None, env: dict | None = None,
            timeout: int = 3600, coverage: bool = False, deque: bool = False,
            tag: str = "run", extra: list[str] | None = None, heap: str = "8g",
            keep_output: bool = False) -> TLCResult:
    WORK.mkdir(exist_ok=True)
    meta = WORK / f"meta-{tag}-{os.getpid()}"
    if meta.exists():
        shutil.rmtree(meta, ignore_errors=True)
    java = ["java", "-XX:+UseParallelGC", f"-Xmx{heap}", f"-Djava.io.tmpdir={WORK}"]
    if deque:
        java.append("-Dtlc2.tool.queue.IStateQueue=StateDeque")
    cmd = java + ["-cp", JAR, "tlc2.TLC", "-workers", str(workers), "-metadir", str(meta),
                  "-noGenerateSpecTE", "-config", cfg]
    if coverage:
        cmd += ["-coverage", "1"]
    if simulate is not None:
        cmd += ["-simulate", simulate]
    if depth is not None:
        cmd += ["-depth", str(depth)]
    if seed is not None:
        cmd += ["-seed", str(seed)]
    if extra:
        cmd += extra
    cmd.append(module)
    full_env = dict(os.environ)
    full_env.pop("JAVA_TOOL_OPTIONS", None)
    if env:
        full_env.update(env)
    t0 = time.time()
    try:
        proc = subprocess.run(cmd, cwd=SPEC, env=full_env, capture_output=True, text=True,
                              timeout=timeout)
    except subprocess.TimeoutExpired as exc:
        raise TLCError(f"TLC timed out after {timeout}s: {' '.join(cmd)}") from exc
    finally:
        shutil.rmtree(meta, ignore_errors=True)
        # the JVM's temporary directories of this run (java.io.tmpdir is .work): empty tlc-* folders
        for d in WORK.glob("tlc-*"):
            try:
                d.rmdir()
            except OSError:
                pass
    out = proc.stdout + proc.stderr
    res = TLCResult(ok=True, wall_s=time.time() - t0, cmd=" ".join(cmd[cmd.index("tlc2.TLC"):]))
    if keep_output:
        res.output = out
    cur_action = None
    for line in out.splitlines():
        m = _TAG_RE.match(line)
        if m:
            try:
                res.tagged.setdefault(m.group(1), []).append((m.group(2), _decode_tla_value(m.group(2))))
            except Exception as exc:  # noqa: BLE001
                raise TLCError(f"cannot decode tagged line: {line[:300]}") from exc
            continue
        m = re.match(r"(\d+) states generated, (\d+) distinct states found", line)
        if m:
            res.generated, res.distinct = int(m.group(1)), int(m.group(2))
            continue
        m = re.match(r"The depth of the complete state graph search is (\d+)", line)
        if m:
            res.depth = int(m.group(1))
            continue
        m = re.match(r"Error: Invariant (\S+) is violated", line)
        if m:
            res.violated.append(m.group(1))
            res.ok = False
            continue
        m = re.match(r"Error: Action property (\S+) is violated", line)
        if m:
            res.violated.append(m.group(1))
            res.ok = False
            continue
        if line.startswith("Error: Temporal properties were violated"):
            res.violated.append("temporal")
            res.ok = False
            continue
        m = re.match(r"<(\w+) line \d+, col \d+ to line \d+, col \d+ of module (\w+)>: (\d+):(\d+)", line)
        if m:
            res.coverage[m.group(1)] = res.coverage.get(m.group(1), 0) + int(m.group(4))
            continue
    # TLC's workers print in no fixed order: sort by the printed text, so that whatever the
    # harness chooses by index or by seeded sampling is reproducible
    for tag, items in res.tagged.items():
        items.sort(key=lambda x: x[0])
        res.tagged[tag] = [x[1] for x in items]
    if not res.ok:
        res.output = out
        return res
    hard_errors = [ln for ln in out.splitlines() if ln.startswith("Error:")]
    if hard_errors or proc.returncode != 0:
        # simulation mode ends with exit 0 only when num is reached; anything else is machinery
        lines = [ln for ln in out.splitlines() if not ln.startswith(('<<"', "<<'"))]
        first = next((i for i, ln in enumerate(lines) if ln.startswith("Error:")), 0)
        raise TLCError("TLC failed: " + " | ".join(hard_errors[:5]) + f" (exit {proc.returncode})\n"
                       + "\n".join(ln[:600] for ln in lines[first:first + 25]) + "\n...\n"
                       + "\n".join(lines[-12:]))
    return res
