"""C19: built-in classifiers are total and follow the documented table and precedence.

TLC enumerates the abstract exception domain of spec/Classify.tla, checks the
implementation-shaped tables against the property-level allowed sets and exports every case.
The harness builds concrete exception objects for each abstract case (several concretisations
per abstract value, seeded extras inside each cell), calls the real classifiers and requires:
no exception, an ErrorClass, a member of the allowed set (verdict); equal to the
implementation-shaped table (conformance).  Optional-library classifiers must equal
default_classifier (their libraries are absent in this sandbox).
Level: exploration - exhaustive over the abstract domain, sampling inside each abstract value.
"""
from __future__ import annotations

import random

from .common import Machinery, Report, import_redress, seed
from .tlc import run_tlc

_classes: dict = {}


def _exc_class(marker: str, name: str):
    key = (marker, name)
    if key in _classes:
        return _classes[key]
    from redress import errors

    base = {"none": Exception, "Timeout": TimeoutError, "Permanent": errors.PermanentError,
            "RateLimit": errors.RateLimitError, "Concurrency": errors.ConcurrencyError,
            "Server": errors.ServerError}[marker]
    cname = {"plain": "Boom", "auth": "UpstreamAuthFailure", "forbid": "ForbiddenZone",
             "timeout": "ReadTimeoutish", "connection": "PeerConnectionLost"}[name]
    cls = type(cname, (base,), {})
    _classes[key] = cls
    return cls


ALT_NAMES = {"auth": ["BadCredentialsError", "UnauthorizedThing", "AuthError"],
             "forbid": ["PermissionProblem", "Forbidden"],
             "timeout": ["TimeoutError", "TIMEOUTError", "Timeout"],
             "connection": ["connection_reset", "ConnectionError"],
             "plain": ["PermanentError", "RateLimitError", "ConcurrencyError", "ServerError", "Oops", "E"]}


class _Obj:
    pass


class _Code(int):
    """an int subclass, as SDKs use for status codes"""


def srepr(v) -> str:
    try:
        r = repr(v)
    except Exception as exc:  # noqa: BLE001 - e.g. ints beyond the str-conversion limit
        r = f"<{type(v).__name__}: repr raises {type(exc).__name__}>"
    return r if len(r) <= 120 else r[:100] + f"...({len(r)} chars)"


def concretise(v: dict, rng: random.Random, alt: int):
    """abstract value -> concrete python value (alt selects among concretisations)"""
    c, n = v["c"], v["n"]
    if c == "none":
        return None
    if c == "true":
        return True
    if c == "false":
        return False
    if c == "int":
        # "every integer status": plain ints, int subclasses and IntEnum members alike
        if alt % 3 == 1:
            return _Code(n)
        if alt % 3 == 2:
            import http
            return http.HTTPStatus(n) if n in http.HTTPStatus._value2member_map_ else _Code(n)
        return n
    if c == "big":
        return [2 ** 64, 10 ** 400, -(2 ** 70)][alt % 3]
    if c == "float":
        return float(n)
    if c == "nan":
        return [float("nan"), float("inf")][alt % 2]
    if c == "str":
        return [str(n), f" {n} ", f"{n}.0"][alt % 3]
    if c == "bytes":
        return [str(n).encode(), bytearray(str(n).encode())][alt % 2]
    if c == "list":
        return [[n], (n,), {n}, {"status": n}][alt % 4]
    if c == "obj":
        return [_Obj(), object(), Exception("x")][alt % 3]
    if c == "empty":
        return ["", b"", [], 0.0][alt % 4]
    raise AssertionError(c)


def build_http_like(x: dict, rng: random.Random, alt: int) -> BaseException:
    cls = _exc_class(x["marker"], x["name"])
    if alt and x["marker"] == "none" and x["name"] in ALT_NAMES:
        nm = ALT_NAMES[x["name"]][(alt - 1) % len(ALT_NAMES[x["name"]])]
        cls = type(nm, (Exception,), {})
    args = () if x["arg"]["c"] == "absent" else (concretise(x["arg"], rng, alt),)
    values = {attr: concretise(x[attr], rng, alt) for attr in ("status", "status_code", "code")
              if x[attr]["c"] != "absent"}
    where = alt % 3        # the attributes live on the instance, on the class, or behind properties
    if where == 1 and values:
        cls = type(cls.__name__, (cls,), dict(values))
    elif where == 2 and values:
        cls = type(cls.__name__, (cls,), {k: property(lambda self, _v=v: _v) for k, v in values.items()})
    e = cls(*args)
    if where == 0:
        for attr, v in values.items():
            setattr(e, attr, v)
    return e


def build_sql(x: dict, rng: random.Random, alt: int) -> BaseException:
    code = x["scode"]["s"]
    shape = x["shape"]
    if shape == "none":
        args: tuple = ()
    elif shape == "bare":
        args = (code,)
    elif shape == "bracket":
        args = ([f"[{code}] driver said no", f"[{code}]", f"x [{code}] [IM002] y"][alt % 3],)
    elif shape == "embedded":
        args = ([f"error {code} occurred", f"({code})", f"state={code};"][alt % 3],)
    elif shape == "wordbracket":
        args = ([f"ERROR [{code}] deadlock detected", f"FATAL 10054 [{code}] connection reset",
                 f"QUERY [{code}]"][alt % 3],)
    elif shape == "second":
        args = (["could not complete the statement", "no", ""][alt % 3], f"[{code}] driver message")
    else:
        args = (40001, None, 3.5)
    e = type("DbBoom", (Exception,), {})(*args)
    a = x["attr"]
    if a == "none":
        e.sqlstate = None
    elif a == "empty":
        e.sqlstate = ""
    elif a == "obj":
        e.sqlstate = _Obj()
    elif a == "str":
        e.sqlstate = x["acode"]["s"]
    elif a == "int":
        e.sqlstate = 40001
    elif a == "bytes":
        e.sqlstate = [b"40001", bytearray(b"08S01")][alt % 2]
    elif a == "bytes_nonascii":
        e.sqlstate = [b"\xff\xfe400", bytearray(b"4000\xe9"), b"\x80"][alt % 3]
    elif a == "big":
        e.sqlstate = [10 ** 5000, -(10 ** 4400), 2 ** 64][alt % 3]
    elif a == "float":
        e.sqlstate = [40001.0, float("nan"), float("inf")][alt % 3]
    elif a == "list":
        e.sqlstate = [["40001"], ("08S01",), {"28000"}][alt % 3]
    return e


def check(tier: str) -> Report:
    import_redress()
    from redress.classify import default_classifier, strict_classifier
    from redress.errors import ErrorClass
    from redress.extras import aiohttp as x_aiohttp
    from redress.extras import boto3 as x_boto3
    from redress.extras import grpc as x_grpc
    from redress.extras import redis as x_redis
    from redress.extras import urllib3 as x_urllib3
    from redress.extras.http import http_classifier
    from redress.extras.pyodbc import pyodbc_classifier
    from redress.extras.sqlstate import sqlstate_classifier

    rep = Report(prop="C19", tier=tier, level="exploration")
    res = run_tlc("Classify.tla", "Classify.cfg", workers=1, tag="C19", timeout=1200)
    if not res.ok:
        raise Machinery(f"Classify.tla: table violates its own allowed sets: {res.violated}\n{res.output[-2000:]}")
    cases = [c[0] for c in res.tagged.get("CASE", [])]
    if len(cases) < 1000:
        raise Machinery("Classify.tla exported too few cases")
    fns = {"default": default_classifier, "strict": strict_classifier, "http": http_classifier,
           "sqlstate": sqlstate_classifier, "pyodbc": pyodbc_classifier}
    optional = {"aiohttp": x_aiohttp.aiohttp_classifier, "grpc": x_grpc.grpc_classifier,
                "boto3": x_boto3.boto3_classifier, "redis": x_redis.redis_classifier,
                "urllib3": x_urllib3.urllib3_classifier}
    rng = random.Random(seed() + 19)
    alts = 4 if tier == "quick" else 8
    evaluations = 0
    cells: set = set()
    drift = 0
    samples = []
    for ci, case in enumerate(cases):
        which, x = case["cls"], case["x"]
        fn = fns[which]
        for alt in range(alts):
            a = alt if alt < 3 else rng.randrange(0, 1000)
            exc = build_sql(x, rng, a) if which in ("sqlstate", "pyodbc") else build_http_like(x, rng, a)
            evaluations += 1
            try:
                out = fn(exc)
            except BaseException as err:  # noqa: BLE001
                rep.add_violation("C19:classifier-raises", f"C19/{which}/raises/{type(err).__name__}",
                                  {"classifier": which, "abstract": x, "exception_class": type(exc).__name__,
                                   "attrs": {k: srepr(v) for k, v in vars(exc).items()}, "args": srepr(exc.args),
                                   "raised": repr(err)})
                continue
            if not isinstance(out, ErrorClass):
                rep.add_violation("C19:not-an-ErrorClass", f"C19/{which}/not-an-ErrorClass",
                                  {"classifier": which, "abstract": x, "returned": repr(out)})
                continue
            if out.name not in case["allowed"]:
                rep.add_violation("C19:class-outside-documented-table",
                                  f"C19/{which}/expected-{'|'.join(sorted(case['allowed']))}-got-{out.name}",
                                  {"classifier": which, "abstract": x, "allowed": case["allowed"],
                                   "returned": out.name, "exception_class": type(exc).__name__,
                                   "attrs": {k: srepr(v) for k, v in vars(exc).items()}, "args": srepr(exc.args)})
            elif out.name != case["impl"]:
                drift += 1
            cells.add((which, ci))
            if which == "strict":
                plain = build_http_like(dict(x, name="plain"), rng, a)
                if strict_classifier(plain) is not out:
                    rep.add_violation("C19:strict-classifier-looks-at-names", "C19/strict/name-dependence",
                                      {"abstract": x, "with_name": out.name,
                                       "plain_name": strict_classifier(plain).name})
            if which == "default":
                for oname, ofn in optional.items():
                    evaluations += 1
                    try:
                        o2 = ofn(exc)
                    except BaseException as err:  # noqa: BLE001
                        rep.add_violation("C19:classifier-raises", f"C19/{oname}/raises/{type(err).__name__}",
                                          {"classifier": oname, "abstract": x, "raised": repr(err)})
                        continue
                    if o2 is not out:
                        rep.add_violation("C19:optional-classifier-differs-from-default",
                                          f"C19/{oname}/differs-from-default",
                                          {"classifier": oname, "abstract": x, "default": out.name,
                                           "returned": getattr(o2, "name", repr(o2))})
        if ci % 9973 == 0:
            samples.append({"classifier": which, "abstract_exception": x, "allowed": case["allowed"],
                            "table": case["impl"]})
    # optional-library classifiers on builtin / mixed exception types (their libraries are absent:
    # they must be default_classifier)
    from redress import errors as _errs

    def _mk(name, bases, **attrs):
        e = type(name, bases, {})("boom")
        for k, v in attrs.items():
            setattr(e, k, v)
        return e
    extras = [BrokenPipeError(), ConnectionError("x"), ConnectionResetError(), TimeoutError(), OSError(5, "io"),
              _mk("PeerGone", (ConnectionError,)), _mk("Throttled", (ConnectionError, _errs.RateLimitError)),
              _mk("Gone", (ConnectionError, _errs.PermanentError)), _mk("Slow", (TimeoutError,), status=404),
              _mk("Refused", (ConnectionError,), status=401), _mk("Busy", (ConnectionError,), code=429),
              _mk("Down", (BrokenPipeError,), status_code=503), _mk("Odd", (OSError,), status=409),
              KeyError("k"), ValueError("v"), ExceptionGroup("g", [ValueError("v")])]
    for exc in extras:
        base = default_classifier(exc)
        for oname, ofn in optional.items():
            evaluations += 1
            try:
                o2 = ofn(exc)
            except BaseException as err:  # noqa: BLE001
                rep.add_violation("C19:classifier-raises", f"C19/{oname}/raises/{type(err).__name__}",
                                  {"classifier": oname, "exception": repr(exc), "raised": repr(err)})
                continue
            if o2 is not base:
                rep.add_violation("C19:optional-classifier-differs-from-default",
                                  f"C19/{oname}/differs-from-default",
                                  {"classifier": oname, "exception": f"{type(exc).__mro__}", "attrs": srepr(vars(exc)),
                                   "default": base.name, "returned": getattr(o2, "name", repr(o2))})
    if drift:
        rep.drift.append(f"{drift} classifications differ from the implementation-shaped table of "
                         f"Classify.tla but stay inside the allowed sets")
    rep.coverage.update({
        "evaluations": evaluations, "distinct_nontrivial": len(cells),
        "rule": "one case per abstract exception of spec/Classify.tla (marker x status x status_code x code x "
                "args x class-name category; SQLSTATE attr x args shape x code) and classifier, exported by "
                "TLC after checking table-in-allowed-set on the whole domain; a case counts as distinct and "
                "non-trivial when its abstract cell was exercised on the real classifier without machinery "
                "error; each cell is concretised several ways (different python types/representations)",
        "abstract_cases": len(cases), "tlc_states": res.distinct, "table_drift": drift,
        "optional_library_classifiers": sorted(optional), "exhaustive": False,
        "samples": samples[:6],
    })
    rep.assumptions += ["optional libraries (aiohttp, grpc, boto3, redis, urllib3) are absent in this sandbox",
                        "hostile attribute values are built-in values; attributes whose access itself raises "
                        "are out of the property's scope"]
    return rep
