"""C17: Budget and CircuitBreaker are atomic under concurrent threads.

Code level (the direction that can see a missing lock): the scheduler of harness/sched.py
enumerates line-level interleavings of the *real* methods for small concurrent programs from
relevant initial states.  Every execution yields a history (per-thread operations and observed
results, final observation, deadlock flag); distinct histories are judged by TLC
(spec/LinCheck.tla): linearizable w.r.t. the sequential specifications Breaker.tla / Budget.tla,
and deadlock-free.
"""
from __future__ import annotations

import json
import random
import threading

from . import vtime
from .common import Machinery, Report, import_redress, seed
from .sched import Deadlock, SchedLock, Scheduler, explore
from .tracecheck import tlc_validate

ALL = ["AUTH", "PERMISSION", "PERMANENT", "CONCURRENCY", "RATE_LIMIT", "SERVER_ERROR", "TRANSIENT",
       "UNKNOWN"]
STATE = {"closed": "closed", "open": "open", "half_open": "half"}

BCFG = {"thr": 2, "W": 8, "R": 2, "trip": ["TRANSIENT"], "cthr": {k: 0 for k in ALL}}
BCFG1 = dict(BCFG, thr=1)


def A(t):
    return {"op": "allow", "k": "-", "t": t}


def F(t, k="TRANSIENT"):
    return {"op": "fail", "k": k, "t": t}


def OK(t):
    return {"op": "ok", "k": "-", "t": t}


def CA(t):
    return {"op": "cancel", "k": "-", "t": t}


# (name, cfg, setup, per-thread programs)
BREAKER_PROGRAMS = [
    ("two probes race after the recovery timeout", BCFG1, [F(0)], [[A(2)], [A(2)]]),
    ("three probes race after the recovery timeout", BCFG1, [F(0)], [[A(2)], [A(2)], [A(2)]]),
    ("two probes race for a freed half-open slot", BCFG1, [F(0), A(2), CA(2)], [[A(2)], [A(2)]]),
    ("racing failures reach the threshold", BCFG, [F(0)], [[F(1)], [F(1)]]),
    ("racing failures from empty history (threshold 2)", BCFG, [], [[F(1)], [F(1)]]),
    ("racing failures on a never-used breaker (threshold 1)", BCFG1, [], [[F(1)], [F(1)]]),
    ("admission races admission on a never-used breaker", BCFG1, [], [[A(1), F(1)], [A(1), F(1)]]),
    ("probe success races probe failure", BCFG1, [F(0), A(2)], [[OK(2)], [F(2)]]),
    ("probe success races probe failure (threshold 2)", BCFG, [F(0), F(0), A(2)], [[OK(2)], [F(2)]]),
    ("probe failure races uncounted failure", BCFG1, [F(0), A(2)], [[F(2, "UNKNOWN")], [OK(2)]]),
    ("cancel races admission", BCFG1, [F(0), A(2)], [[CA(2)], [A(2)]]),
    ("admission races a failure that opens", BCFG1, [], [[A(1)], [F(1)]]),
    ("probe then settle vs probe", BCFG1, [F(0)], [[A(2), OK(2)], [A(2)]]),
    ("failure then admission vs failure", BCFG, [F(0)], [[F(1), A(1)], [F(1)]]),
    # time passes while a thread is pre-empted: a whole open -> probe -> close cycle by others
    ("racing failures while a probe cycle completes", BCFG, [F(0)], [[F(1)], [F(1)], [A(4), OK(4)]]),
    ("failure races a probe cycle (threshold 1)", BCFG1, [], [[F(1)], [F(1)], [A(4), OK(4)]]),
    ("probe admission races failure and a later probe", BCFG1, [F(0)], [[A(2), F(2)], [A(5)], [A(5)]]),
]


def C(t, cost=1):
    return {"op": "consume", "cost": cost, "t": t}


def RM(t):
    return {"op": "remaining", "cost": 0, "t": t}


UCFG = {"max": 2, "W": 4}
BUDGET_PROGRAMS = [
    ("two consumers race for the last token", UCFG, [C(0)], [[C(1)], [C(1)]]),
    ("three consumers, two tokens", UCFG, [], [[C(1)], [C(1)], [C(1)]]),
    ("cost 2 races cost 1", UCFG, [], [[C(1, 2)], [C(1)]]),
    ("consume races remaining", UCFG, [C(0)], [[C(1)], [RM(1)]]),
    ("consume races consume while a grant ages out", UCFG, [C(0), C(0)], [[C(4)], [C(4)]]),
    ("two ops each", UCFG, [], [[C(1), RM(1)], [C(1), C(1)]]),
    ("three consumers on a never-used budget, one token", dict(UCFG, max=1), [], [[C(1)], [C(1)], [C(1)]]),
]


def systematic_programs():
    """all unordered pairs of single operations from every relevant initial state"""
    out = []
    bstates = [
        ("closed, empty history, threshold 2", BCFG, [], 1),
        ("closed, one failure logged, threshold 2", BCFG, [F(0)], 1),
        ("closed, threshold 1", BCFG1, [], 1),
        ("open, before the recovery timeout", BCFG1, [F(0)], 1),
        ("open, recovery timeout elapsed", BCFG1, [F(0)], 2),
        ("half-open, probe in flight", BCFG1, [F(0), A(2)], 2),
        ("half-open, probe slot free", BCFG1, [F(0), A(2), CA(2)], 2),
        ("half-open (threshold 2), probe in flight", BCFG, [F(0), F(0), A(2)], 2),
    ]
    bops = [("allow", lambda t: A(t)), ("ok", lambda t: OK(t)), ("fail", lambda t: F(t)),
            ("fail-uncounted", lambda t: F(t, "UNKNOWN")), ("cancel", lambda t: CA(t))]
    for sname, cfg, setup, t in bstates:
        for i, (n1, o1) in enumerate(bops):
            for n2, o2 in bops[i:]:
                out.append(("breaker", f"{n1} || {n2} from {sname}", cfg, setup, [[o1(t)], [o2(t)]]))
    ustates = [
        ("empty", UCFG, [], 1), ("one fresh grant", UCFG, [C(0)], 1), ("full, fresh", UCFG, [C(0), C(0)], 1),
        ("full, both grants expiring now", UCFG, [C(0), C(0)], 4),
        ("full, one grant expiring now", UCFG, [C(0), C(2)], 4),
    ]
    uops = [("consume", lambda t: C(t)), ("consume2", lambda t: C(t, 2)), ("remaining", lambda t: RM(t))]
    for sname, cfg, setup, t in ustates:
        for i, (n1, o1) in enumerate(uops):
            for n2, o2 in uops[i:]:
                out.append(("budget", f"{n1} || {n2} from {sname}", cfg, setup, [[o1(t)], [o2(t)]]))
    return out


class _Exec:
    """One execution: a fresh real component with its lock replaced by a scheduler lock."""

    def __init__(self, comp: str, cfg: dict, setup: list, programs: list) -> None:
        import_redress()
        self.comp, self.cfg, self.setup, self.programs = comp, cfg, setup, programs
        self.now = 0
        self.tls = threading.local()
        self.clock = vtime.VClock()
        vtime.set_active(self.clock)
        if comp == "breaker":
            import redress.circuit as mod
            from redress.errors import ErrorClass

            self.EC = ErrorClass
            self.obj = mod.CircuitBreaker(
                failure_threshold=cfg["thr"], window_s=cfg["W"] * vtime.TICK,
                recovery_timeout_s=cfg["R"] * vtime.TICK,
                trip_on={ErrorClass[k] for k in cfg["trip"]},
                class_thresholds={ErrorClass[k]: n for k, n in cfg["cthr"].items() if n > 0},
                # every operation reads the instant it was issued at, whichever thread runs meanwhile
                clock=lambda: (vtime.BASE_TICKS + getattr(self.tls, "now", self.now)) * vtime.TICK)
        else:
            import redress.budget as mod
            self.obj = mod.Budget(max_retries=cfg["max"], window_s=cfg["W"] * vtime.TICK)
        self.sched = Scheduler({mod.__file__})
        # every lock of the component is scheduler-controlled: those it holds already (whatever the
        # attributes are called) and any it creates later (the module's `threading` is a shim)
        sched = self.sched

        class _Threading:
            def __getattr__(self, name):
                return getattr(threading, name)

            @staticmethod
            def Lock():
                return SchedLock(sched)

            @staticmethod
            def RLock():
                return SchedLock(sched)
        if hasattr(mod, "threading"):
            mod.threading = _Threading()
        locks = [k for k, v in vars(self.obj).items()
                 if hasattr(v, "acquire") and hasattr(v, "release") and hasattr(v, "__enter__")]
        self.lock_attrs = locks
        for k in locks:
            setattr(self.obj, k, SchedLock(self.sched))
        self.setup_deadlock = False
        try:
            for op in setup:
                self.apply(op)
        except Deadlock:
            self.setup_deadlock = True
            for k in self.lock_attrs:
                setattr(self.obj, k, SchedLock(self.sched))

    def apply(self, op: dict) -> dict:
        self.now = op["t"]
        self.tls.now = op["t"]
        self.clock.set_now(op["t"]) if self.clock.now <= op["t"] else None
        if self.comp == "breaker":
            o = dict(op, allowed=True, ev="-")
            try:
                if op["op"] == "allow":
                    d = self.obj.allow()
                    o["allowed"], o["ev"] = bool(d.allowed), d.event or "-"
                elif op["op"] == "ok":
                    o["ev"] = self.obj.record_success() or "-"
                elif op["op"] == "fail":
                    o["ev"] = self.obj.record_failure(self.EC[op["k"]]) or "-"
                else:
                    self.obj.record_cancel()
            except Exception as exc:  # noqa: BLE001 - an exception is an observation no sequential order explains
                o["ev"] = f"EXC:{type(exc).__name__}"
            return o
        try:
            if op["op"] == "consume":
                r = self.obj.consume(op["cost"])
                return dict(op, ret=1 if r is True else 0 if r is False else -1)
            return dict(op, ret=int(self.obj.remaining()))
        except Exception as exc:  # noqa: BLE001
            return dict(op, ret=-2, exc=type(exc).__name__)

    def thread_program(self, ops: list):
        def run():
            return [self.apply(op) for op in ops]
        return run

    def collect(self, sched: Scheduler, deadlock: bool, choices: list) -> dict:
        threads = [w.results if w.results else [] for w in sched.workers]
        errors = [repr(w.error) for w in sched.workers if w.error is not None]
        final: dict = {}
        deadlock = deadlock or self.setup_deadlock
        if not deadlock:
            for k in self.lock_attrs:     # fresh, uncontended, for the observation
                setattr(self.obj, k, SchedLock(sched))
            tmax = max([op["t"] for p in self.programs for op in p] + [op["t"] for op in self.setup] + [0])
            try:
                if self.comp == "breaker":
                    t1 = tmax + self.cfg["R"]
                    post = [self.apply(o) for o in (A(t1), A(t1), OK(t1), F(t1), F(t1), A(t1))]
                    final = {"post": post, "state": STATE.get(self.obj.state.value, self.obj.state.value)}
                else:
                    post = [self.apply(o) for o in (RM(tmax), C(tmax), C(tmax), RM(tmax))]
                    final = {"post": post, "remaining": int(self.obj.remaining()), "t": tmax}
            except Deadlock:
                deadlock = True
                final = {}
        lines = []
        seen_with = set()
        for e in sched.events:
            if e[1] != "line" or e[2] not in ("allow", "record_success", "record_failure", "record_cancel",
                                              "consume", "remaining"):
                continue
            lab = f"{e[2]}{e[3]}"
            if lab in ("allow2", "record_success1", "record_failure2", "record_cancel1",
                       "consume4", "remaining2"):
                # leaving the `with` block reports its line once more: that is the release step
                if (e[0], lab) in seen_with:
                    continue
                seen_with.add((e[0], lab))
            lines.append([e[0] + 1, lab])
        return {"comp": self.comp, "cfg": self.cfg, "setup": self.setup, "threads": threads, "lines": lines,
                "final": final, "deadlock": bool(deadlock), "errors": errors,
                "schedule": choices,
                "incomplete": (not deadlock) and any(len(t) != len(p) for t, p in zip(threads, self.programs))}


def _explore_with_clock(make, bound, cap):
    try:
        yield from explore(make, bound, cap)
    finally:
        vtime.set_active(None)


def run_program(comp: str, name: str, cfg: dict, setup: list, programs: list, bound: int, cap: int):
    def make():
        ex = _Exec(comp, cfg, setup, programs)
        return ex.sched, [ex.thread_program(p) for p in programs], ex.collect
    hist: dict[str, dict] = {}
    n = 0
    for h in _explore_with_clock(make, bound, cap):
        n += 1
        if h["errors"] or h["incomplete"]:
            h["deadlock"] = h["deadlock"] or False
        key = json.dumps({k: h[k] for k in ("threads", "final", "deadlock", "errors")}, sort_keys=True)
        if key not in hist:
            h["program"] = name
            hist[key] = h
        hist[key]["count"] = hist[key].get("count", 0) + 1
    return n, list(hist.values())


KNOWN_LABELS = None


def _design(tier: str, module: str, base: str) -> int:
    from .tlc import pick_cfg, run_tlc

    d = run_tlc(f"{module}.tla", pick_cfg(f"{base}_locked", tier), tag=f"{base}-l", timeout=3000)
    if not d.ok:
        raise Machinery(f"{module} (locked) violates {d.violated}")
    nl = run_tlc(f"{module}.tla", f"{base}_nolock.cfg", tag=f"{base}-nl", timeout=3000)
    if nl.ok or "Linearizable" not in nl.violated:
        raise Machinery(f"vacuity guard: the lock-free variant of {module} was not refuted")
    return d.distinct


def _validate_lines(traces: list[dict], algo: str, trace_module: str, rep: Report) -> int:
    import json as _json
    import os
    import re

    from .tlc import run_tlc
    from .tracecheck import SPEC, WORK
    known = set(re.findall(r'pc\[self\] = "(\w+)"', (SPEC / f"{algo}.tla").read_text()))
    for t in traces:      # continuation lines of multi-line statements have no label of their own
        kept, last = [], {}
        for e in t["lines"]:
            if e[1] not in known or last.get(e[0]) == e[1]:   # ... and end on their first line again
                continue
            kept.append(e)
            last[e[0]] = e[1]
        t["lines"] = kept
    # canary: the first trace with one label replaced must be rejected
    bad = _json.loads(_json.dumps(traces[0]))
    mid = len(bad["lines"]) // 2
    bad["lines"][mid][1] = next(x for x in sorted(known) if x != bad["lines"][mid][1] and x[-1].isdigit())
    bad["program"] = "canary"
    traces = traces + [bad]
    WORK.mkdir(exist_ok=True)
    tf = WORK / f"trace-lines-{algo}-{os.getpid()}.json"
    cf = WORK / f"{trace_module}-{os.getpid()}.cfg"
    tf.write_text(_json.dumps([{"sc": t["sc"], "lines": t["lines"]} for t in traces]))
    cf.write_text((SPEC / f"{trace_module}.cfg.tpl").read_text().replace("@N@", str(len(traces))))
    try:
        tr = run_tlc(f"{trace_module}.tla", str(cf), workers=4, env={"TRACE_FILE": str(tf)},
                     tag=f"tt-{algo}", timeout=3000)
    finally:
        tf.unlink(missing_ok=True)
        cf.unlink(missing_ok=True)
    if not tr.ok:
        raise Machinery(f"{trace_module} reported {tr.violated}")
    accepted = {a[0] for a in tr.tagged.get("ACCEPT", [])}
    if len(traces) in accepted:
        raise Machinery(f"canary: {trace_module} accepted a line trace with a wrong label")
    traces = traces[:-1]
    rejected = [t for i, t in enumerate(traces, 1) if i not in accepted]
    if rejected:
        rep.drift.append(f"{len(rejected)} of {len(traces)} line-level executions are not behaviours of "
                         f"{algo}.tla (e.g. program {rejected[0]['program']})")
    return len(traces) - len(rejected)


def line_conformance(tier: str, rep: Report) -> dict:
    """Design level: TLC checks the PlusCal algorithms BreakerThreads and BudgetThreads (one label
    per source line) for mutual exclusion, linearizability and deadlock freedom, and that their
    lock-free variants are NOT linearizable (vacuity guard).  Binding: line-level executions of the
    real methods recorded by the scheduler are validated against the algorithms' labels
    (ThreadTrace.tla, BudgetThreadTrace.tla)."""
    d_states = _design(tier, "BreakerThreads", "BreakerThreads")
    u_states = _design(tier, "BudgetThreads", "BudgetThreads")
    rng = random.Random(seed() + 170)
    out = {}
    for comp, algo, tmod in (("breaker", "BreakerThreads", "ThreadTrace"),
                             ("budget", "BudgetThreads", "BudgetThreadTrace")):
        traces = []
        scope = [p for p in systematic_programs()
                 if p[0] == comp and len({op["t"] for prog in p[4] for op in prog}) == 1
                 and all(len(prog) == 1 for prog in p[4])]
        rng.shuffle(scope)
        for _comp, name, cfg, setup, programs in scope[: (25 if tier == "quick" else 120)]:
            def make(cfg=cfg, setup=setup, programs=programs, comp=comp):
                ex = _Exec(comp, cfg, setup, programs)
                return ex.sched, [ex.thread_program(p) for p in programs], ex.collect
            for h in _explore_with_clock(make, 1, 12 if tier == "quick" else 60):
                if h["deadlock"] or h["errors"]:
                    continue
                # the scenario as the algorithm sees it: the trace spec applies the setup
                # operations to the sequential model to obtain the initial state
                if comp == "breaker":
                    sc = {"cfg": {"thr": cfg["thr"], "W": cfg["W"], "R": cfg["R"], "trip": cfg["trip"]},
                          "setup": [{"op": o["op"], "k": o.get("k", "-"), "t": o["t"]} for o in setup],
                          "clock": programs[0][0]["t"],
                          "prog": [{"op": p[0]["op"], "k": p[0]["k"]} for p in programs]}
                else:
                    sc = {"cfg": {"max": cfg["max"], "W": cfg["W"]},
                          "setup": [{"op": o["op"], "cost": o.get("cost", 0), "t": o["t"]} for o in setup],
                          "clock": programs[0][0]["t"],
                          "prog": [{"op": p[0]["op"], "cost": p[0].get("cost", 0)} for p in programs]}
                vtime.set_active(None)
                traces.append({"sc": sc, "lines": h["lines"], "program": name})
        if not traces:
            raise Machinery(f"no line-level executions recorded for {comp}")
        ok = _validate_lines(traces, algo, tmod, rep)
        out[comp] = {"line_traces_checked": len(traces), "line_traces_conformant": ok}
    return {"design_states": d_states + u_states, "design_states_breaker": d_states,
            "design_states_budget": u_states, "design_lockfree_refuted": True,
            "line_traces_checked": sum(v["line_traces_checked"] for v in out.values()),
            "line_traces_conformant": sum(v["line_traces_conformant"] for v in out.values()),
            "line_traces": out}


def check(tier: str) -> Report:
    rep = Report(prop="C17", tier=tier, level="model_checking")
    bound = 2 if tier == "quick" else 3
    cap = 1500 if tier == "quick" else 40000
    total = 0
    histories: list[dict] = []
    per_program = {}
    for comp, progs in (("breaker", BREAKER_PROGRAMS), ("budget", BUDGET_PROGRAMS)):
        for name, cfg, setup, programs in progs:
            b = bound if len(programs) == 2 else max(1, bound - 1)
            n, hs = run_program(comp, name, cfg, setup, programs, b, cap)
            total += n
            per_program[name] = {"schedules": n, "distinct_histories": len(hs)}
            histories += hs
    for comp, name, cfg, setup, programs in systematic_programs():
        n, hs = run_program(comp, name, cfg, setup, programs, bound - 1, cap)
        total += n
        per_program[name] = {"schedules": n, "distinct_histories": len(hs)}
        histories += hs
    for h in histories:
        if h["errors"]:
            raise Machinery(f"harness error inside a worker thread: {h['errors']}")
    verdicts = tlc_validate("LinCheck", histories, "C17",
                            keys=("comp", "cfg", "setup", "threads", "final", "deadlock"))
    for h, v in zip(histories, verdicts):
        if v["viol"]:
            cl = sorted(v["viol"])
            rep.add_violation(cl[0], f"C17/{h['comp']}/{h['program']}/{cl[0].split(':', 1)[1]}", {
                "component": h["comp"], "program": h["program"], "cfg": h["cfg"], "setup": h["setup"],
                "threads_observed": h["threads"], "final": h["final"], "deadlock": h["deadlock"],
                "schedule_thread_ids_per_line": h["schedule"], "schedules_with_this_history": h["count"],
                "how": "harness.threadcheck: run the programs under harness.sched with this schedule"})
    # canary: a history in which two probes are both admitted must be rejected
    bad = {"comp": "breaker", "cfg": BCFG1, "setup": [F(0)],
           "threads": [[dict(A(2), allowed=True, ev="circuit_half_open")],
                       [dict(A(2), allowed=True, ev="circuit_half_open")]],
           "final": {"state": "half", "post": []}, "deadlock": False}
    good = dict(bad, threads=[[dict(A(2), allowed=True, ev="circuit_half_open")],
                              [dict(A(2), allowed=False, ev="circuit_rejected")]])
    cv = tlc_validate("LinCheck", [good, bad], "C17-canary",
                      keys=("comp", "cfg", "setup", "threads", "final", "deadlock"))
    if cv[0]["viol"] or not cv[1]["viol"]:
        raise Machinery(f"canary failed: {cv}")
    line_cov = line_conformance(tier, rep)
    rep.coverage.update({
        "states": (sum(v["_states"] for v in verdicts[:1]) or 1) + line_cov.get("design_states", 0),
        "transitions": total, **line_cov,
        "schedules_executed": total, "distinct_histories_judged_by_tlc": len(histories),
        "traces_validated_against_impl": total, "preemption_bound": bound,
        "programs": len(per_program), "per_program": per_program, "exhaustive": all(p["schedules"] < cap for p in per_program.values()),
        "canary": "double admission rejected by LinCheck",
        "samples": [{k: histories[i][k] for k in ("program", "threads", "final", "count")}
                    for i in (0, len(histories) // 2)],
    })
    rep.assumptions += [
        "pre-emption is possible before every source line of circuit.py / budget.py, not inside a line",
        "the clock is constant during the concurrent phase",
        f"schedules enumerated with pre-emption bound {bound} (one less for three threads)",
    ]
    return rep
