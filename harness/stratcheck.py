"""C18: built-in backoff strategies are total and stay inside their envelopes.

spec/Strategies.tla defines, in exact rational arithmetic with saturating powers, the
implementation-shaped value and the property-level envelope of the stateless strategies on a
grid, the AdaptiveStrategy window machine, and the retry_after_or sanitisation cases.  TLC checks
value-in-envelope on the whole grid / state space and exports test vectors and the transition
graph.  The harness pins redress.strategies.random.uniform to the draw, runs the real strategies
and requires: no exception, finite, inside the envelope (verdict), equal to the model value
(conformance); seeded sampling around each grid cell extends the points to neighbourhoods.
Level: exploration - decided on a spec-chosen grid, not for all floats.
"""
from __future__ import annotations

import math
import random
from fractions import Fraction

from . import vtime
from .common import Machinery, Report, import_redress, seed
from .graph import replay_graph
from .tlc import run_tlc

T = 64  # ticks per second in Strategies.tla


def check(tier: str) -> Report:
    import_redress()
    import redress.strategies as S
    from redress.classify import Classification
    from redress.errors import ErrorClass

    rep = Report(prop="C18", tier=tier, level="exploration")
    from .tlc import pick_cfg
    res = run_tlc("Strategies.tla", pick_cfg("Strategies", tier), tag="C18", timeout=1200)
    if not res.ok:
        raise Machinery(f"Strategies.tla violated {res.violated}\n{res.output[-1500:]}")
    vecs = [v[0] for v in res.tagged.get("VEC", [])]
    raos = [v[0] for v in res.tagged.get("RAO", [])]
    edges = [v[0] for v in res.tagged.get("EDGE", [])]
    acfgs = res.tagged["ACONFIGS"][0][0]
    if len(vecs) < 500 or len(edges) < 1000:
        raise Machinery("Strategies.tla exported too little")
    rng = random.Random(seed() + 18)
    evaluations = 0
    cells = set()
    drift = 0
    samples = []
    real_uniform = S.random.uniform
    factories = {"equal_jitter": S.equal_jitter, "token_backoff": S.token_backoff,
                 "decorrelated_jitter": S.decorrelated_jitter}
    growth = {"equal_jitter": 2.0, "token_backoff": 1.5}

    def viol(clause, sig, detail):
        rep.add_violation(clause, sig, detail)

    try:
        # ---- stateless grid ------------------------------------------------
        for v in vecs:
            S.random.uniform = lambda a, b, _u=v["u"]: a + (b - a) * _u / 2.0
            f = factories[v["s"]](base_s=v["base"] / T, max_s=v["max"] / T)
            prev = None if v["prev"] < 0 else v["prev"] / T
            evaluations += 1
            try:
                r = f(v["attempt"], ErrorClass.TRANSIENT, prev)
            except BaseException as err:  # noqa: BLE001
                viol("C18:strategy-raises", f"C18/{v['s']}/raises/{type(err).__name__}",
                     {"vector": v, "raised": repr(err)})
                continue
            lo, hi, val = (Fraction(*v[k]) / T for k in ("lo", "hi", "val"))
            if not (isinstance(r, float) and math.isfinite(r)) or not (lo <= Fraction(r) <= hi):
                viol("C18:value-outside-envelope", f"C18/{v['s']}/envelope",
                     {"vector": v, "returned_s": repr(r), "lo_s": float(lo), "hi_s": float(hi)})
            elif Fraction(r) != val:
                drift += 1
            cells.add((v["s"], v["base"], v["max"], v["attempt"], v["prev"], v["u"]))
            if len(samples) < 3 and rng.random() < 0.005:
                samples.append({"vector": v, "returned_s": r})
        # ---- neighbourhoods: random non-dyadic parameters, random draws ----------
        n_nb = 4000 if tier == "quick" else 200000
        for _ in range(n_nb):
            name = rng.choice(sorted(factories))
            # incl. extreme-but-valid bases (tiny, subnormal) with very large attempt numbers
            base = rng.choice([0.0, rng.uniform(0, 2.0), rng.uniform(0, 0.01), 1e-200, 1e-310, 5e-324,
                               10.0 ** -rng.randint(20, 300)])
            mx = base + rng.choice([0.0, rng.uniform(0, 40.0), 20.0, 1e300])
            attempt = rng.choice([rng.randint(1, 12), rng.randint(1000, 1100), rng.randint(1700, 1800),
                                  rng.randint(1, 10 ** 7), rng.randint(1020, 1030), rng.randint(2000, 6000)])
            prev = rng.choice([None, 0.0, rng.uniform(0, 50.0), 1e9, 6e307, 1.7e308])
            u = rng.choice([0.0, 1.0, rng.random()])
            S.random.uniform = lambda a, b, _u=u: a + (b - a) * _u
            evaluations += 1
            try:
                r = factories[name](base_s=base, max_s=mx)(attempt, ErrorClass.SERVER_ERROR, prev)
            except BaseException as err:  # noqa: BLE001
                viol("C18:strategy-raises", f"C18/{name}/raises/{type(err).__name__}",
                     {"base_s": base, "max_s": mx, "attempt": attempt, "prev": prev, "draw": u,
                      "raised": repr(err)})
                continue
            if name == "decorrelated_jitter":
                ok = math.isfinite(r) and 0.0 <= r <= mx
                env = [0.0, mx]
            else:
                g = growth[name]
                # cap = min(max_s, base_s * g^attempt), exactly (rationals) unless it is max_s by far
                if base > 0 and attempt * math.log(g) + math.log(base) > math.log(max(mx, 5e-324)) + 1:
                    cap = mx
                elif base == 0:
                    cap = 0.0
                else:
                    cap = float(min(Fraction(mx), Fraction(base) * Fraction(g) ** attempt))
                ok = math.isfinite(r) and cap / 2 * (1 - 1e-12) <= r <= cap * (1 + 1e-12) + 5e-324
                env = [cap / 2, cap]
            if not ok:
                viol("C18:value-outside-envelope", f"C18/{name}/envelope",
                     {"base_s": base, "max_s": mx, "attempt": attempt, "prev": prev, "draw": u,
                      "returned_s": repr(r), "envelope": env})
        # ---- adaptive() used by two threads: every line-level interleaving of a strategy call
        # with an outcome report (deterministic scheduler of C17) - no exception, value in range
        from .sched import SchedLock, Scheduler, explore
        ctx0 = S.BackoffContext(attempt=1, classification=Classification(ErrorClass.TRANSIENT),
                                prev_sleep_s=None, remaining_s=None, cause="exception")
        thread_runs = 0
        for second in ("record_failure", "record_success", "call"):
            def make(second=second):
                ad = S.adaptive(lambda ctx: 1.0, window_s=10.0, target_success=0.5, min_multiplier=1.0,
                                max_multiplier=3.0, clock=lambda: 0.0)
                for i in range(4):
                    (ad.record_failure(ErrorClass.TRANSIENT) if i % 2 else ad.record_success())
                sched = Scheduler({S.__file__})
                locks = [k for k, v in vars(ad).items()
                         if hasattr(v, "acquire") and hasattr(v, "release") and hasattr(v, "__enter__")]
                for k in locks:
                    setattr(ad, k, SchedLock(sched))
                progs = [lambda: ad(ctx0),
                         (lambda: ad(ctx0)) if second == "call" else
                         (lambda: ad.record_failure(ErrorClass.TRANSIENT)) if second == "record_failure" else
                         (lambda: ad.record_success())]

                def collect(sc, deadlock, choices):
                    return {"deadlock": bool(deadlock), "errors": [repr(w.error) for w in sc.workers if w.error],
                            "values": [w.results for w in sc.workers], "schedule": choices}
                return sched, progs, collect
            for h in explore(make, 2, 300 if tier == "quick" else 5000):
                thread_runs += 1
                evaluations += 1
                v0 = h["values"][0]
                if h["errors"] or h["deadlock"]:
                    viol("C18:strategy-raises", "C18/adaptive/threads/raises",
                         {"threads": ["strategy call", second], "errors": h["errors"], "deadlock": h["deadlock"],
                          "schedule": h["schedule"]})
                    break
                if not (isinstance(v0, float) and 1.0 - 1e-12 <= v0 <= 3.0 + 1e-12):
                    viol("C18:adaptive-multiplier-outside-range", "C18/adaptive/threads/multiplier-range",
                         {"threads": ["strategy call", second], "returned": repr(v0), "schedule": h["schedule"]})
                    break
        # ---- adaptive(): random valid parameterisations and histories -----------------
        for _ in range(600 if tier == "quick" else 30000):
            ts = rng.choice([1.0, 0.9, 0.5, 1e-9, 1e-17, 5e-324, rng.random() or 0.5])
            mn, mx_m = rng.choice([(1.0, 1.0), (1.0, 5.0), (2.0, 3.0), (1.5, 1.5), (1.2, 3.4), (1.2, 3.6),
                                   (1.4, 5.7), (1.4, 6.3), (1.1, 1.1 + rng.random() * 7)])
            win = rng.choice([0.5, 1.0, 5.0])
            now = [0.0]
            fb = rng.choice([0.0, 0.25, 3.0, 1.0, 1.0])
            evaluations += 1
            try:
                ad = S.adaptive(lambda ctx, _f=fb: _f, window_s=win, target_success=ts, min_multiplier=mn,
                                max_multiplier=mx_m, clock=lambda: now[0])
                ctx = S.BackoffContext(attempt=1, classification=Classification(ErrorClass.TRANSIENT),
                                       prev_sleep_s=None, remaining_s=None, cause="exception")
                vals = []
                for _step in range(rng.randint(0, 8)):
                    x = rng.random()
                    if x < 0.35:
                        ad.record_failure(ErrorClass.TRANSIENT)
                    elif x < 0.6:
                        ad.record_success()
                    elif x < 0.8:
                        now[0] += rng.choice([0.0, win / 2, win, win * 1.5])
                    else:
                        vals.append(ad(ctx))
                vals.append(ad(ctx))
            except BaseException as err:  # noqa: BLE001
                viol("C18:strategy-raises", f"C18/adaptive/raises/{type(err).__name__}",
                     {"target_success": ts, "min_multiplier": mn, "max_multiplier": mx_m, "window_s": win,
                      "raised": repr(err)})
                continue
            for v in vals:
                # with a fallback of exactly 1.0 the returned value IS the factor: the range is exact
                slack = 0.0 if fb == 1.0 else 1e-12
                if not (math.isfinite(v) and fb * mn * (1 - slack) <= v <= fb * mx_m * (1 + slack)):
                    viol("C18:adaptive-multiplier-outside-range", "C18/adaptive/multiplier-range",
                         {"target_success": ts, "min_multiplier": mn, "max_multiplier": mx_m,
                          "fallback": fb, "returned": v})
                    break
        # ---- retry_after_or sanitisation -----------------------------------------
        kinds = {"zero": 0.0, "val": 2.0, "big": 1e12, "nan": math.nan, "pinf": math.inf,
                 "ninf": -math.inf, "neg": -3.0}
        hints = {"none": None, "val": 3.0, "nan": math.nan, "pinf": math.inf, "neg": -2.0}
        for v in raos:
            for u in (0.0, 0.5, 1.0):
                S.random.uniform = lambda a, b, _u=u: a + (b - a) * _u
                strat = S.retry_after_or(lambda ctx, _x=kinds[v["fb"]]: _x, jitter_s=0.25)
                rem = None if v["rem"] < 0 else float(v["rem"])
                ctx = S.BackoffContext(attempt=2, classification=Classification(
                    ErrorClass.RATE_LIMIT, retry_after_s=hints[v["hint"]]), prev_sleep_s=None,
                    remaining_s=rem, cause="result")
                evaluations += 1
                try:
                    r = strat(ctx)
                except BaseException as err:  # noqa: BLE001
                    viol("C18:strategy-raises", f"C18/retry_after_or/raises/{type(err).__name__}",
                         {"case": v, "raised": repr(err)})
                    continue
                if not (math.isfinite(r) and r >= 0 and (rem is None or r <= rem)):
                    viol("C18:value-outside-envelope", "C18/retry_after_or/envelope",
                         {"case": v, "draw": u, "returned_s": repr(r)})
            cells.add(("rao", v["fb"], v["hint"], v["rem"]))
    finally:
        S.random.uniform = real_uniform

    # ---- AdaptiveStrategy: replay M's transition graph ---------------------------
    class RealAdaptive:
        def __init__(self, cid: int) -> None:
            c = acfgs[cid - 1]
            self.config = c
            self.now = 0
            self.s = S.adaptive(lambda ctx: 1.0, window_s=c["W"] * vtime.TICK,
                                target_success=c["ts"][0] / c["ts"][1], min_multiplier=float(c["mn"]),
                                max_multiplier=float(c["mx"]),
                                clock=lambda: (vtime.BASE_TICKS + self.now) * vtime.TICK)
            self.ctx = S.BackoffContext(attempt=1, classification=Classification(ErrorClass.TRANSIENT),
                                        prev_sleep_s=None, remaining_s=None, cause="exception")

        def do(self, ev):
            self.now = ev["t"]
            o = dict(ev)
            try:
                if ev["op"] == "success":
                    self.s.record_success()
                elif ev["op"] == "failure":
                    self.s.record_failure(ErrorClass.TRANSIENT)
                else:
                    o["value"] = self.s(self.ctx)
            except BaseException as err:  # noqa: BLE001
                o["value"] = f"EXC:{type(err).__name__}"
            return o, ev

    def same(o, p):
        if p["op"] != "call":
            return "value" not in o
        v = o.get("value")
        return isinstance(v, float) and abs(v - p["mult"][0] / p["mult"][1]) < 1e-9

    g = replay_graph(edges, RealAdaptive, same, rng, n_walks=500 if tier == "quick" else 20000)
    evaluations += g["n_ops"]
    for m in g["mismatches"]:
        c = m["cfg"]
        for o, p in zip(m["ev"], m["predicted"]):
            if p["op"] != "call":
                if "value" in o:
                    viol("C18:strategy-raises", "C18/adaptive/record-raises", {"cfg": c, "trace": m["ev"]})
                continue
            v = o.get("value")
            if not isinstance(v, float) or not math.isfinite(v) or not (c["mn"] - 1e-9 <= v <= c["mx"] + 1e-9):
                viol("C18:adaptive-multiplier-outside-range", "C18/adaptive/multiplier-range",
                     {"cfg": c, "trace": m["ev"], "predicted": m["predicted"]})
                break
        else:
            drift += 1
    cells |= {("adaptive", i) for i in range(g["nodes"])}
    if drift:
        rep.drift.append(f"{drift} values differ from the model value but stay inside the envelope")
    rep.coverage.update({
        "evaluations": evaluations, "distinct_nontrivial": len(cells),
        "rule": "stateless strategies: one cell per grid point (strategy, base, max, attempt, prev, draw) of "
                "spec/Strategies.tla exported by TLC after checking value-in-envelope, plus seeded random "
                "neighbourhood points (not counted as distinct cells); retry_after_or: one cell per "
                "(fallback kind, hint kind, remaining); AdaptiveStrategy: one cell per distinct model state "
                "whose outgoing transitions were replayed on the real object",
        "grid_vectors": len(vecs), "neighbourhood_points": n_nb, "adaptive_edges": len(edges),
        "adaptive_replays": g["n_traces"], "tlc_states": res.distinct, "model_value_drift": drift,
        "exhaustive": False, "samples": samples + g["samples"][:1],
    })
    rep.assumptions += ["parameters on the grid are whole ticks of 2**-6 s (exact floats); neighbourhood points "
                        "use a float envelope with relative tolerance 1e-12",
                        "random.uniform(a, b) is replaced by a + (b - a) * draw"]
    return rep
