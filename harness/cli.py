"""./check <property> [--tier quick|thorough] [--replay <file>]"""
from __future__ import annotations

import argparse
import os
import sys
import traceback

from . import common


def _dispatch(prop: str, tier: str):
    if prop in ("C06",):
        from . import breaker
        return breaker.check(prop, tier)
    if prop == "C07":
        from . import breaker, policycheck
        rep = policycheck.check("C07", tier, breaker.check("C07", tier, light=True))
        from . import conccheck
        conccheck.check_into(rep, tier)
        return rep
    if prop == "C08":
        from . import conccheck, policycheck
        rep = policycheck.check("C08", tier)
        # ... and for concurrently running calls: when all are over, the breaker admits again
        conccheck.check_into(rep, tier, prop="C08")
        return rep
    if prop == "C09":
        from . import conccheck, policycheck
        rep = policycheck.check("C09", tier)
        # ... and for concurrently running calls: each call's record follows its own outcome
        conccheck.check_into(rep, tier, prop="C09")
        return rep
    if prop == "C10":
        from . import budget, retrycheck
        comp = budget.check(tier)
        rep = retrycheck.check("C10", tier)
        rep.violations = comp.violations + rep.violations
        rep.drift = comp.drift + rep.drift
        rep.t0 = comp.t0
        cc = comp.coverage
        rep.coverage["states"] += cc["states"]
        rep.coverage["transitions"] += cc["transitions"]
        rep.coverage["traces_validated_against_impl"] += cc["traces_validated_against_impl"]
        rep.coverage["budget_component_level"] = {k: v for k, v in cc.items() if k != "samples"}
        rep.coverage["samples"] = rep.coverage["samples"][:2] + cc["samples"][:1]
        return rep
    if prop == "C18":
        from . import stratcheck
        return stratcheck.check(tier)
    if prop == "C20":
        from . import retryaftercheck
        return retryaftercheck.check(tier)
    if prop == "C19":
        from . import classcheck
        return classcheck.check(tier)
    if prop == "C17":
        from . import threadcheck
        return threadcheck.check(tier)
    if prop == "C12":
        from . import relcheck
        return relcheck.check_c12(tier)
    if prop == "C15":
        from . import relcheck
        return relcheck.check_c15(tier)
    if prop in ("C08", "C09"):
        from . import policycheck
        return policycheck.check(prop, tier)
    from . import retrycheck
    if prop == "C14":
        from . import policycheck
        return policycheck.check("C14", tier, retrycheck.check("C14", tier))
    if prop in retrycheck.PROFILES:
        return retrycheck.check(prop, tier)
    raise SystemExit(f"unknown property {prop}")


def main(argv=None) -> int:
    ap = argparse.ArgumentParser()
    ap.add_argument("prop")
    ap.add_argument("--tier", default=os.environ.get("VERIF_TIER", "quick"),
                    choices=["quick", "thorough"])
    ap.add_argument("--replay", default=None)
    args = ap.parse_args(argv)
    try:
        if args.replay:
            from . import replay
            return replay.run(args.prop, args.replay)
        rep = _dispatch(args.prop, args.tier)
        return common.finish(rep)
    except common.Machinery as exc:
        print(f"MACHINERY-FAILURE property={args.prop}: {exc}", file=sys.stderr)
        return 2
    except Exception:  # noqa: BLE001
        traceback.print_exc()
        print(f"MACHINERY-FAILURE property={args.prop}: harness exception", file=sys.stderr)
        return 2


if __name__ == "__main__":
    sys.exit(main())
