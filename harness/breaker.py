"""C06 / C07 at the level of the CircuitBreaker object.

  S->C   TLC explores spec/BreakerMC exhaustively (M |= P) and exports M's labelled transition
         graph; every transition is replayed on a real CircuitBreaker (driven to the
         transition's source state along a path of M) and the observation compared with M's.
  C->S   seeded random histories with wide constants are executed on the real object and the
         recorded traces are validated by TLC (spec/BreakerTrace): verdict against the
         property-level reference P, conformance against M.
  Traces whose observations differ from M's prediction are also sent to TLC for the verdict.
"""
from __future__ import annotations

import json
import random
from collections import deque
from pathlib import Path

from . import vtime
from .common import WORK, Machinery, Report, import_redress, seed
from .tlc import SPEC, TLCError, pick_cfg, run_tlc

ALL_CLASSES = ["AUTH", "PERMISSION", "PERMANENT", "CONCURRENCY", "RATE_LIMIT", "SERVER_ERROR",
               "TRANSIENT", "UNKNOWN"]
STATE_NAME = {"closed": "closed", "open": "open", "half_open": "half"}


# ---------------------------------------------------------------------------
# driving the real object
# ---------------------------------------------------------------------------
class RealBreaker:
    """A real CircuitBreaker on a virtual clock, observed through its public API only."""

    # fine time base: 1 unit = 1e-7 s; tick t happens at instant t * (FINE - 1) + FINE_K, i.e. with a
    # sub-microsecond offset that shrinks as time goes on - ages are a few tenths of a microsecond
    # shorter than their whole-tick value, never exactly on a boundary
    FINE, FINE_K = 156250, 50000

    def __init__(self, cfg: dict, fine: bool = False) -> None:
        self.fine = fine
        redress = import_redress()
        from redress.circuit import CircuitBreaker
        from redress.errors import ErrorClass

        from types import MappingProxyType

        self.EC = ErrorClass
        self.now = 0
        # the kinds of values vary with the configuration (no observable difference is allowed):
        # any iterable for trip_on, any Mapping for class_thresholds, ints where whole
        shape = (cfg["thr"] + cfg["W"] + cfg["R"] + len(cfg["trip"])) % 4
        trip = [ErrorClass[k] for k in sorted(cfg["trip"])]
        trip_on = [set(trip), frozenset(trip), list(trip), tuple(reversed(trip))][shape]
        if sorted(cfg["trip"]) == ["SERVER_ERROR", "TRANSIENT"]:
            trip_on = None            # the documented default
        cthr = {ErrorClass[k]: n for k, n in cfg["cthr"].items() if n > 0}

        def whole(x):
            return int(x) if shape % 2 and x == int(x) else x

        def clock():
            if self.fine:
                return vtime.BASE_TICKS * vtime.TICK + self.instant(self.now) * 1e-7
            return whole((vtime.BASE_TICKS + self.now) * vtime.TICK)
        self.b = CircuitBreaker(
            failure_threshold=cfg["thr"],
            window_s=whole(cfg["W"] * vtime.TICK),
            recovery_timeout_s=whole(cfg["R"] * vtime.TICK),
            trip_on=trip_on,
            class_thresholds=MappingProxyType(cthr) if shape >= 2 else cthr,
            clock=clock,
        )
        # the containers stay the caller's: what happens to them afterwards (another breaker built
        # from the same set, later edits) is of no consequence for this breaker
        decoy = {k: 1 for k in ErrorClass if k not in trip and k not in cthr}
        if isinstance(trip_on, set):
            CircuitBreaker(failure_threshold=1, window_s=1.0, recovery_timeout_s=1.0, trip_on=trip_on,
                           class_thresholds=decoy, clock=clock)
            trip_on.update(ErrorClass)
        elif isinstance(trip_on, list):
            trip_on.extend(ErrorClass)
        if shape < 2:
            cthr.clear()

    def _state(self) -> str:
        return STATE_NAME.get(self.b.state.value, str(self.b.state.value))

    def instant(self, t: int) -> int:
        """the instant of tick t in the fine time base (units of 1e-7 s)"""
        return t * (self.FINE - 1) + self.FINE_K

    def do(self, op: str, k: str, t: int) -> dict:
        self.now = t
        # a second, busy breaker of the same class in the same process: instances share nothing
        other = getattr(self, "other", None)
        if other is None:
            other = self.other = type(self.b)(failure_threshold=2, window_s=1e6, recovery_timeout_s=1e-9,
                                             class_thresholds={self.EC.RATE_LIMIT: 2, self.EC.AUTH: 2},
                                             clock=lambda: 1e9 + self.now)       # default trip_on
        other.record_failure(self.EC.TRANSIENT)
        other.allow()
        other.record_success()
        allowed, ev = True, "-"
        try:
            if op == "allow":
                d = self.b.allow()
                allowed = bool(d.allowed)
                ev = d.event if d.event is not None else "-"
                ds = STATE_NAME.get(d.state.value, str(d.state.value))
                if ds != self._state():
                    ev = f"{ev}!decision.state={ds}"
            elif op == "ok":
                r = self.b.record_success()
                ev = r if r is not None else "-"
            elif op == "fail":
                r = self.b.record_failure(self.EC[k])
                ev = r if r is not None else "-"
            elif op == "cancel":
                r = self.b.record_cancel()
                ev = r if r is not None else "-"
            else:
                raise ValueError(op)
        except Exception as exc:  # noqa: BLE001 - a raising operation is an observation
            ev = f"EXC:{type(exc).__name__}"
        return {"op": op, "k": k, "t": self.instant(t) if self.fine else t, "allowed": allowed,
                "ev": str(ev), "state": self._state()}


def concretise(cfg: dict, cmap: dict[str, str]) -> dict:
    """model config (classes A,B,C) -> concrete config over the 8 ErrorClass names"""
    return {
        "thr": cfg["thr"], "W": cfg["W"], "R": cfg["R"],
        "trip": [cmap[k] for k in cfg["trip"]],
        "cthr": {c: 0 for c in ALL_CLASSES} | {cmap[k]: n for k, n in cfg["cthr"].items()},
    }


def class_map(rng: random.Random) -> dict[str, str]:
    names = ALL_CLASSES[:]
    rng.shuffle(names)
    return {"A": names[0], "B": names[1], "C": names[2], "-": "-"}


# ---------------------------------------------------------------------------
# TLC: model checking + graph export
# ---------------------------------------------------------------------------
def model_check(tier: str, light: bool = False) -> dict:
    cfg = pick_cfg("BreakerMC_light" if light and tier == "quick" else "BreakerMC_quick", tier)
    res = run_tlc("BreakerMC.tla", cfg, tag="brk-mc", timeout=3000)
    if not res.ok:
        raise Machinery(f"spec-level counterexample in BreakerMC ({res.violated}); the model is "
                        f"never shipped in this state:\n{res.output[-3000:]}")
    return {"states": res.distinct, "transitions": res.generated, "depth": res.depth,
            "mc_wall_s": round(res.wall_s, 1), "mc_cfg": cfg}


def export_graph(tier: str, light: bool = False):
    cfg = pick_cfg("BreakerMC_export_light" if light and tier == "quick" else "BreakerMC_export", tier)
    res = run_tlc("BreakerMC.tla", cfg, tag="brk-exp", timeout=3000)
    if not res.ok:
        raise Machinery(f"BreakerMC export run violated {res.violated}")
    configs = res.tagged["CONFIGS"][0][0]
    edges = [e[0] for e in res.tagged.get("EDGE", [])]
    return configs, edges, res


def simulate_graph(tier: str, configs):
    """deep random behaviours of M (TLC -simulate): edges along walks of depth 16"""
    num = 400 if tier == "quick" else 6000
    res = run_tlc("BreakerMC.tla", "BreakerMC_sim.cfg", workers=4, simulate=f"num={num}", depth=16,
                  seed=seed() + 1, tag="brk-sim", timeout=3000)
    if not res.ok:
        raise Machinery(f"BreakerMC simulation violated {res.violated}")
    if res.tagged["CONFIGS"][0][0] != configs:
        raise Machinery("configuration order differs between TLC runs")
    return [e[0] for e in res.tagged.get("EDGE", [])]


class _ModelBreaker:
    """RealBreaker driven by model-level events (classes A,B,C) through a class map."""

    def __init__(self, mcfg: dict, cmap: dict[str, str]) -> None:
        self.cmap = cmap
        self.config = concretise(mcfg, cmap)
        self.rb = RealBreaker(self.config)

    def do(self, ev: dict):
        o = self.rb.do(ev["op"], self.cmap[ev["k"]], ev["t"])
        return o, dict(ev, k=self.cmap[ev["k"]])


def _same(o: dict, p: dict) -> bool:
    return (o["allowed"], o["ev"], o["state"]) == (p["allowed"], p["ev"], p["state"])


def replay_graph(configs, edges, rng: random.Random, n_walks: int):
    from .graph import replay_graph as generic

    cmaps = {i + 1: class_map(rng) for i in range(len(configs))}
    return generic(edges, lambda cid: _ModelBreaker(configs[cid - 1], cmaps[cid]), _same, rng,
                   n_walks)


# ---------------------------------------------------------------------------
# C->S: random histories on the real object
# ---------------------------------------------------------------------------
def random_history(rng: random.Random, length: int, fine: bool = False) -> dict:
    W = rng.choice([1, 2, 3, 5, 8, 13, 40])
    R = rng.choice([1, 2, 3, 4, 7, 16, 40])
    thr = rng.choice([1, 2, 2, 3, 3, 4, 5])
    trip = [c for c in ALL_CLASSES if rng.random() < 0.35]
    if rng.random() < 0.2:
        trip = ["SERVER_ERROR", "TRANSIENT"]          # the default trip_on (passed as None)
    cthr = {c: 0 for c in ALL_CLASSES}
    for c in rng.sample(ALL_CLASSES, rng.choice([0, 0, 1, 2])):
        cthr[c] = rng.choice([1, 2, 3])
    cfg = {"thr": thr, "W": W, "R": R, "trip": trip, "cthr": cthr}
    counted = sorted(set(trip) | {c for c, n in cthr.items() if n})
    rb = RealBreaker(cfg, fine=fine)
    t = 0
    opened_at = None
    evs = []
    if fine:
        # the trace is judged in the fine time base: window and timeout in units of 1e-7 s
        out_cfg = dict(cfg, W=W * RealBreaker.FINE, R=R * RealBreaker.FINE)
    else:
        out_cfg = cfg
    if counted and not fine and rng.random() < 0.5:
        # cycle-shaped history: fail until open, wait for recovery, probe, settle, fail again soon
        while len(evs) < length:
            o = rb.do("fail", rng.choice(counted), t)
            evs.append(o)
            if o["state"] == "open":
                t += R + rng.choice([-1, 0, 0, 0, 1])
                evs.append(rb.do("allow", "-", max(t, o["t"])))
                t = max(t, o["t"])
                x = rng.random()
                if x < 0.6:
                    evs.append(rb.do("ok", "-", t))
                elif x < 0.8:
                    evs.append(rb.do("fail", rng.choice(ALL_CLASSES), t))
                else:
                    evs.append(rb.do("cancel", "-", t))
                    evs.append(rb.do("allow", "-", t))
            t += rng.choice([0, 0, 1, 1, W - 1, W])
        return {"cfg": out_cfg, "ev": evs[:length + 4]}
    if counted and not fine and rng.random() < 0.25:
        # half-open stress: open, wait, then many admissions / cancels / stray records at one instant
        k0 = rng.choice(counted)
        while rb._state() != "open" and len(evs) < length:
            evs.append(rb.do("fail", k0, t))
        t += R
        for _ in range(12):
            x = rng.random()
            op = "allow" if x < 0.5 else "cancel" if x < 0.85 else rng.choice(["ok", "fail"])
            evs.append(rb.do(op, k0 if op == "fail" else "-", t))
            if rng.random() < 0.15:
                t += rng.choice([0, 1, R])
        return {"cfg": out_cfg, "ev": evs}
    for _ in range(length):
        # clock advance: favour the boundaries of both windows
        if opened_at is not None and rng.random() < 0.5:
            target = opened_at + R + rng.choice([-1, 0, 0, 1])
            if target >= t:
                t = target
        else:
            t += rng.choice([0, 0, 0, 1, 1, W - 1, W, W, W + 1, R, rng.randrange(0, 2 * W + 2)])
        x = rng.random()
        if x < 0.55:
            k = rng.choice(counted) if counted and rng.random() < 0.8 else rng.choice(ALL_CLASSES)
            o = rb.do("fail", k, t)
        elif x < 0.80:
            o = rb.do("allow", "-", t)
        elif x < 0.92:
            o = rb.do("ok", "-", t)
        else:
            o = rb.do("cancel", "-", t)
        if o["ev"] == "circuit_opened":
            opened_at = t
        elif o["state"] == "closed":
            opened_at = None
        evs.append(o)
    return {"cfg": out_cfg, "ev": evs}


def tlc_validate(traces: list[dict], tag: str) -> list[dict]:
    from .tracecheck import tlc_validate as generic

    return generic("BreakerTrace", traces, "brk-" + tag)


def canary(trace: dict) -> None:
    """Binding self-test: a corrupted copy of a real trace must be rejected, the original
    accepted by M."""
    bad = json.loads(json.dumps(trace))
    idx = next((i for i, e in enumerate(bad["ev"]) if e["op"] == "allow"), 0)
    bad["ev"][idx]["allowed"] = not bad["ev"][idx]["allowed"]
    v = tlc_validate([bad], "canary")[0]
    if not v["viol"] or v["conf"] == 0:
        raise Machinery("canary: corrupted trace accepted by the trace specification")


# ---------------------------------------------------------------------------
# the check
# ---------------------------------------------------------------------------
def check(prop: str, tier: str, light: bool = False) -> Report:
    """light: smaller exhaustive bound (used by C07, which adds policy-level and concurrent parts)"""
    assert prop in ("C06", "C07")
    rep = Report(prop=prop, tier=tier, level="model_checking")
    rng = random.Random(seed() * 7919 + 17)
    mc = model_check(tier, light)
    # symbolic: M agrees with the reference for arbitrary integer thresholds, windows and times
    from .apalache import breaker_symbolic
    sym = breaker_symbolic(tier)
    configs, edges, exp = export_graph(tier, light)
    deep = simulate_graph(tier, configs)
    n_exh = len(edges)
    edges = edges + deep
    g = replay_graph(configs, edges, rng, n_walks=(500 if light else 2000) if tier == "quick" else 20000)
    n_traces, n_ops, mism, samples = g["n_traces"], g["n_ops"], g["mismatches"], g["samples"]
    n_rand = (700 if light else 1500) if tier == "quick" else 20000
    rand = [random_history(rng, 40) for _ in range(n_rand)]
    # ... a third of them again on a time base that is off the microsecond grid
    rand += [random_history(rng, 40, fine=True) for _ in range(n_rand // 3)]
    verdicts = tlc_validate(mism + rand, "main")
    canary(rand[0])
    nonconf = 0
    for tr, v in zip(mism + rand, verdicts):
        if v["conf"]:
            nonconf += 1
        mine = sorted(c for c in v["viol"] if c.startswith(prop + ":"))
        if mine:
            ops = tr["ev"][: v["first"]]
            rep.add_violation(
                mine[0], f"{prop}/breaker/{mine[0].split(':', 1)[1]}",
                {"level": "CircuitBreaker", "cfg": tr["cfg"], "trace": tr["ev"],
                 "first_violating_op": v["first"], "clauses": mine,
                 "predicted_by_M": tr.get("predicted"),
                 "how": "build CircuitBreaker(cfg) on a virtual clock (1 tick = 2**-6 s), apply "
                        "the operations in order; the observation of the marked operation "
                        "contradicts the reference model (spec/Breaker.tla, RExpect)",
                 "prefix": ops})
        elif v["conf"]:
            rep.drift.append(f"real breaker differs from M at op {v['conf']} of a trace but "
                             f"{prop} holds on it")
    rep.coverage.update(mc)
    rep.coverage.update({
        "traces_validated_against_impl": n_traces + len(rand),
        "graph_edges_exported": n_exh, "simulated_deep_edges": len(deep),
        "graph_replays": n_traces,
        "graph_replay_ops": n_ops,
        "replay_mismatches": len(mism),
        "random_histories_tlc_validated": len(rand),
        "nonconformant_traces": nonconf,
        "trace_check_states": verdicts[0]["_states"] if verdicts else 0,
        "exhaustive": True,
        "canary": "corrupted trace rejected", "symbolic": sym,
        "samples": samples + [{"cfg": rand[0]["cfg"],
                               "ops": [[o["op"], o["k"], o["t"], o["allowed"], o["ev"], o["state"]]
                                       for o in rand[0]["ev"][:12]]}],
    })
    rep.assumptions += [
        "clock values are whole ticks of 2**-6 s (exact in float and timedelta)",
        "the monotonic clock never goes backwards",
        "bounds of the exhaustive model: see spec/" + mc["mc_cfg"],
    ]
    return rep
