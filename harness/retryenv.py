"""Scripted environment for the retry loop and drivers for the real entry points.

A *scenario* is a configuration (record `c` of spec/RetryLoop.tla) plus an event list produced
by TLC (a behaviour of M) or by a random generator.  The environment's choices are read from
the event list, indexed per call-out kind (k-th invoke outcome, k-th strategy return value,
k-th abort answer, k-th handler decision, k-th sleeper behaviour), so that an implementation
that drifts from M still gets a total environment (defaults when a queue runs dry).

Everything is observed through the public API: the operation, the classifiers, the strategies,
abort_if, the sleep handler, before_sleep, the sleeper, on_metric/on_log, a Budget subclass that
delegates to the real methods, and the value returned / exception raised by the entry point.
"""
from __future__ import annotations

import asyncio
import threading
import math
import sys
from typing import Any

from . import vtime
from .common import import_redress

NONE = -1
UNOBS = -2
SLEEPER_EXC = -3
BSLEEP_EXC = -4
NOT_OURS = -7          # an object that is not one of the environment's own
NOT_TICKS = -999       # a float that is not a whole number of ticks

RETRYABLE = ["TRANSIENT", "RATE_LIMIT", "CONCURRENCY", "SERVER_ERROR"]
NONRETRY = ["PERMANENT", "AUTH", "PERMISSION"]


class OpError(Exception):
    """Exception raised by the scripted operation; carries its abstract description."""

    def __init__(self, attempt: int, klass: str, ra: int) -> None:
        super().__init__(f"op failure #{attempt}")
        self.attempt, self.klass, self.ra = attempt, klass, ra


_FLAVOURS: list = []


def exc_flavours() -> list:
    """OpError subclasses that are also instances of exception types the library itself uses or
    catches: an operation may raise any of them and they are ordinary failures to be classified."""
    if not _FLAVOURS:
        from redress.errors import CircuitOpenError, PermanentError

        class OpCircuitOpen(OpError, CircuitOpenError):
            pass

        class OpTimeout(OpError, TimeoutError):
            pass

        class OpLookup(OpError, LookupError):
            pass

        class OpPermanent(OpError, PermanentError):
            pass

        _FLAVOURS.extend([OpError, OpCircuitOpen, OpTimeout, OpLookup, OpPermanent])
    return _FLAVOURS


class HookError(Exception):
    """ordinary exception raised by an observability hook"""


class Value:
    """Value returned by the scripted operation."""

    def __init__(self, attempt: int, klass: str | None, ra: int) -> None:
        self.attempt, self.klass, self.ra = attempt, klass, ra

    def __repr__(self) -> str:
        return f"Value(#{self.attempt},{self.klass})"


class AwaitableValue(Value):
    """a result that is itself awaitable (a handle to further work): the library must hand it
    over as it is, never await it"""

    def __await__(self):
        raise AssertionError("the library awaited the operation's result object")
        yield  # pragma: no cover


class FalsyValue(Value):
    """a result that is falsy and empty, like 0, "" or []"""

    def __bool__(self) -> bool:
        return False

    def __len__(self) -> int:
        return 0


_HANG = object()      # the scripted operation does not come back (attempt timeout fires)
LOOP_MODE = False     # True while a scenario runs under a real asyncio event loop


class _Suspend:
    """Awaitable that hands control to the hand-written driver (one suspension point); under a
    real event loop it is a plain asyncio.sleep(0)."""

    def __init__(self, label: str) -> None:
        self.label = label

    def __await__(self):
        if LOOP_MODE:
            yield from asyncio.sleep(0).__await__()
        else:
            yield self


class HostileError(Exception):
    """exception whose attributes raise when inspected (hostile to classifiers)"""

    @property
    def status(self):
        raise RuntimeError("hostile attribute")


def make_exc(kind: str) -> BaseException:
    from redress.errors import (AbortRetryError, CircuitOpenError, RetryExhaustedError, StopReason)

    if kind == "error":
        return RuntimeError("injected")
    if kind == "kbd":
        return KeyboardInterrupt()
    if kind == "sysexit":
        return SystemExit(4)
    if kind == "cancel":
        return asyncio.CancelledError()
    if kind == "genexit":
        return GeneratorExit()
    if kind == "abort":
        return AbortRetryError()
    if kind == "circuitopen":
        return CircuitOpenError("open")
    if kind == "nested":
        return RetryExhaustedError(stop_reason=StopReason.MAX_ATTEMPTS_GLOBAL, attempts=1,
                                   last_class=None, last_exception=None, last_result=None)
    if kind == "hostile":
        return HostileError("hostile")
    raise AssertionError(kind)


def ticks(x: float | None) -> int:
    if x is None:
        return NONE
    if not isinstance(x, (int, float)) or isinstance(x, bool):
        return NOT_TICKS
    t = vtime.to_ticks(float(x))
    return NOT_TICKS if t is None else t


def _us(x) -> dict:
    """requested sleep in whole microseconds, rounded down (never overstates a sleep), as whole
    ticks `ut` plus a remainder `us` of 0..15624 microseconds (TLC's integers are 32 bit)"""
    if not isinstance(x, (int, float)) or isinstance(x, bool) or x != x or x in (math.inf, -math.inf):
        return {"ut": NOT_TICKS, "us": 0}
    us = int(math.floor(x * 1_000_000 + 1e-6))
    if us < 0:
        return {"ut": -1, "us": 0}
    return {"ut": us // 15625, "us": us % 15625}


def class_perm(seed: int) -> dict[str, str]:
    """A permutation of class names that preserves the roles the library distinguishes
    (non-retryable triple, UNKNOWN, the rest)."""
    import random

    rng = random.Random(seed)
    a, b = RETRYABLE[:], NONRETRY[:]
    rng.shuffle(a)
    rng.shuffle(b)
    perm = dict(zip(RETRYABLE, a)) | dict(zip(NONRETRY, b)) | {"UNKNOWN": "UNKNOWN"}
    return perm


class Env:
    def __init__(self, cfg: dict, events: list[dict], *, perm: dict[str, str] | None = None,
                 is_async: bool = False, async_callbacks: bool = False,
                 hook_fault: dict | None = None, wall: str = "jump") -> None:
        import_redress()
        from redress.errors import ErrorClass

        self.EC = ErrorClass
        self.cfg = cfg
        self.perm = perm or {k: k for k in RETRYABLE + NONRETRY + ["UNKNOWN"]}
        self.inv = {v: k for k, v in self.perm.items()}
        self.is_async = is_async
        self.async_callbacks = async_callbacks      # awaitable before_sleep / sleeper
        self.hook_fault = hook_fault or {}
        self.clock = vtime.VClock(wall=wall)
        self.trace: list[dict] = []
        self.t0 = 0
        # script queues
        self.q = {kind: [e for e in events if e["e"] == kind]
                  for kind in ("invoke", "strategy", "poll", "handler", "sleep", "bsleep",
                               "classify", "rclassify", "emit")}
        self.qi = {kind: 0 for kind in self.q}
        self.raised: list[BaseException] = []
        self.raised_n: list[int] = []
        self.values: list[Value] = []
        self.sleeper_exc: BaseException | None = None
        self.bsleep_exc: BaseException | None = None
        self.ninv = 0
        self.hook_calls = {"metric": 0, "log": 0, "bsleep": 0}
        self.raw_sleeps: list[float] = []
        self.site_fault: dict | None = None
        self.site_calls: dict[str, int] = {}
        self.call_index = 0
        # None | "all" | "nocircuit": vary the python types of raised exceptions (incl. library
        # exception types), of abort requests (the public alias) and of results (falsy ones)
        self.flavours: str | None = None
        self.single_sink: str | None = None   # "log": on_log is the only observability hook configured
        self.ccache: dict = {}        # Classification objects handed out (the same object per class and hint)
        self.none_pending = None      # the scripted result object that the operation returned as None
        self.none_result = None       # ... while it describes the latest classified failure

    # ------------------------------------------------------------------ helpers
    def now(self) -> int:
        return self.clock.now - self.t0

    def _next(self, kind: str) -> dict | None:
        i = self.qi[kind]
        self.qi[kind] = i + 1
        return self.q[kind][i] if i < len(self.q[kind]) else None

    def _cname(self, klass: Any) -> str:
        """concrete ErrorClass -> model class name"""
        name = getattr(klass, "name", None)
        return self.inv.get(name, f"?{klass!r}")

    def _ec(self, model_name: str):
        return self.EC[self.perm[model_name]]

    def start_run(self) -> None:
        self.t0 = self.clock.now
        self.ninv = 0
        self.raised = []
        self.raised_n = []
        self.values = []
        self.sleeper_exc = None
        self.bsleep_exc = None
        self.none_pending = self.none_result = None
        self.hang_n = None
        self.hang_objs = []
        old = getattr(self, "hang_release", None)
        if old is not None:
            old.set()                 # let the abandoned worker threads of the previous run go
        self.hang_release = threading.Event()
        self.site_calls = {}          # fault injection counts the calls of a site within one run / call

    # ------------------------------------------------------------------ operation
    def op(self) -> Any:
        sc = self._next("invoke") or {"out": "ok", "k": "-", "ra": NONE, "dur": 0}
        self.ninv += 1
        n = self.ninv
        t = self.now()
        self.clock.advance(sc["dur"])
        if sc.get("wallstep"):
            vtime._real["sleep"](sc["wallstep"])    # the wall clock moves on; the monotonic one does not
        self.trace.append({"e": "invoke", "n": n, "t": t, "out": sc["out"], "k": sc["k"],
                           "ra": sc["ra"], "dur": sc["dur"], "t1": self.now()})
        out = sc["out"]
        self.none_pending = None
        if out == "hang":
            # attempt_timeout_s fires: the clock has already moved on by the timeout (dur)
            self.hang_n = n
            if self.is_async:
                return _HANG               # aop() awaits something that never happens
            self.hang_release.wait(20.0)   # worker thread of the sync runner; released after the run
            raise AssertionError("the abandoned attempt's outcome must never be looked at")
        vcls = FalsyValue if self.flavours and n % 2 == 1 else Value
        if self.flavours and self.is_async and n % 2 == 0:
            vcls = AwaitableValue
        if out in ("ok", "res") and self.flavours and n % 3 == 2 and self.values \
                and self.values[-1].attempt == n - 1 and self.none_result is None \
                and not self.cfg.get("abort"):
            # the very same object as the previous attempt's result, in a new state ("job.refresh();
            # return job"): it now stands for this attempt
            v = self.values[-1]
            v.attempt, v.klass, v.ra = n, (sc["k"] if out == "res" else None), (sc["ra"] if out == "res" else NONE)
            return v
        if out == "ok":
            v = vcls(n, None, NONE)
            self.values.append(v)
            return v
        if out == "res":
            v = vcls(n, sc["k"], sc["ra"])
            self.values.append(v)
            if self.flavours and n % 3 == 0 and not self.cfg.get("abort"):
                # (not with abort polls: an abort between classification and processing makes it
                # ambiguous which failure a None in last_result stands for)
                # the failing result is None itself ("poll until not None"): the result classifier
                # maps it like any other value; identity None <-> this attempt until the next one
                self.none_pending = v
                return None
            return v
        if out == "excsame" and self.raised and isinstance(self.raised[-1], OpError):
            exc: BaseException = self.raised[-1]          # the very same object again
            exc.klass, exc.ra = sc["k"], sc["ra"]
        elif out in ("exc", "excsame"):
            ecls = OpError
            if self.flavours:
                fl = [c for c in exc_flavours() if self.flavours == "all" or c.__name__ != "OpCircuitOpen"]
                ecls = fl[(n + self.call_index + len(self.q["invoke"])) % len(fl)]
            exc = ecls(n, sc["k"], sc["ra"])
            if isinstance(exc, TimeoutError):
                # as raised by an inner asyncio.timeout() / wait_for(): chained to a CancelledError
                exc.__cause__ = asyncio.CancelledError()
        elif out == "abort":
            from redress.errors import AbortRetryError
            exc = AbortRetryError()
            if self.flavours and n % 2 == 0:
                import redress
                exc = redress.AbortRetry()        # the public alias
        elif out == "cancel":
            exc = asyncio.CancelledError()
        elif out == "kbd":
            exc = KeyboardInterrupt()
        elif out == "sysexit":
            exc = SystemExit(3)
        elif out == "nested":
            from redress.errors import RetryExhaustedError, StopReason
            exc = RetryExhaustedError(stop_reason=StopReason.MAX_ATTEMPTS_GLOBAL, attempts=1,
                                      last_class=None, last_exception=None, last_result=None)
        elif out in ("circuitopen", "genexit", "hostile", "error"):
            exc = make_exc(out)
        else:
            raise AssertionError(out)
        self.raised.append(exc)
        self.raised_n.append(n)
        if self.flavours and out in ("exc", "excsame", "abort"):
            # the operation fails inside a `with` block of a generator-based context manager
            # (contextlib assigns __traceback__ on the exception object on its way out; not done for
            # the library's frozen-dataclass RetryExhaustedError, which cannot take that assignment
            # by design - see DESIGN.md, observations)
            with _passthrough():
                raise exc
        raise exc

    async def aop(self) -> Any:
        await _Suspend("op")
        r = self.op()
        if r is _HANG:
            # does not come back until the runner cancels it.  The timer of the attempt timeout is due
            # already (the clock moved by ATimeout); should the runner have armed it for later, time
            # goes on passing while the operation hangs, so the run ends - late, which M rejects
            spins = 0
            while True:
                await asyncio.sleep(0)
                spins += 1
                if spins > 20:
                    self.clock.advance(1)
                if spins > 3000:
                    raise AssertionError("the attempt timeout never fired")
        return r

    # ------------------------------------------------------------------ classifiers
    def _classification(self, k: str, ra: int):
        from redress.classify import Classification

        if ra is not None and ra >= 0:
            # an int hint (0 is falsy) is as good as a float one
            hint = ra * vtime.TICK
            if self.flavours and hint == int(hint):
                hint = int(hint)
            if self.flavours:      # a table lookup returns the very same object every time
                return self.ccache.setdefault((k, hint), Classification(klass=self._ec(k), retry_after_s=hint))
            return Classification(klass=self._ec(k), retry_after_s=hint)
        if self.flavours and self.ninv % 4 in (1, 2):
            # (two consecutive attempts, then two with the bare ErrorClass)
            # instead of the bare ErrorClass
            return self.ccache.setdefault((k, None), Classification(klass=self._ec(k)))
        return self._ec(k)

    def classifier(self, exc: BaseException):
        n = self._exc_id(exc)
        self._fault("classifier", attempt=n)
        if n == NONE:
            n = NOT_OURS
        if isinstance(exc, OpError):
            k, ra = exc.klass, exc.ra
        else:
            k, ra = "UNKNOWN", NONE
        dur = (self._next("classify") or {}).get("dur", 0)
        self.none_result = None           # this failure now describes the run
        self.trace.append({"e": "classify", "n": n, "k": k, "ra": ra, "dur": dur, "t": self.now()})
        self.clock.advance(dur)                 # time passes inside the classifier
        return self._classification(k, ra)

    def rclassifier(self, value: Any):
        if value is None and getattr(self, "none_pending", None) is not None:
            value = self.none_pending
        self._fault("rclassifier", attempt=self._val_id(value))
        mine = any(value is v for v in self.values)
        n = value.attempt if mine else NOT_OURS
        dur = (self._next("rclassify") or {}).get("dur", 0)
        if not mine or value.klass is None:
            self.trace.append({"e": "rclassify", "n": n, "k": "none", "ra": NONE, "dur": dur,
                               "t": self.now()})
            self.clock.advance(dur)
            self.none_result = None
            return None
        # this failure now describes the run; None stands for it if that is what was returned
        self.none_result = value if value is getattr(self, "none_pending", None) else None
        self.trace.append({"e": "rclassify", "n": n, "k": value.klass, "ra": value.ra, "dur": dur,
                           "t": self.now()})
        self.clock.advance(dur)
        return self._classification(value.klass, value.ra)

    # ------------------------------------------------------------------ strategies
    def _ret_value(self, sc: dict | None) -> float:
        ret = (sc or {}).get("ret") or {"kind": "val", "v": 0}
        kind = ret["kind"]
        if kind == "val":
            v = ret["v"] * vtime.TICK
            if self.flavours and v == int(v):
                return int(v)                  # strategies may return ints (0 is falsy)
            return v
        return {"nan": math.nan, "pinf": math.inf, "ninf": -math.inf}[kind]

    def make_strategy(self, which: str):
        legacy = which in self.cfg.get("legacy", [])
        env = self

        def record(n, k, ra, prev, rem, cause):
            env._fault("strategy")
            sc = env._next("strategy")
            ret = (sc or {}).get("ret") or {"kind": "val", "v": 0}
            env.trace.append({"e": "strategy", "which": which, "n": n, "k": k, "ra": ra,
                              "prev": prev, "rem": rem, "cause": cause, "ret": ret,
                              "t": env.now()})
            return env._ret_value(sc)

        if legacy:
            def legacy_strategy(attempt, klass, prev_sleep_s):
                return record(attempt, env._cname(klass), UNOBS, ticks(prev_sleep_s), UNOBS, "?")
            return legacy_strategy

        def ctx_strategy(ctx):
            cl = ctx.classification
            return record(ctx.attempt, env._cname(cl.klass), ticks(cl.retry_after_s),
                          ticks(ctx.prev_sleep_s), ticks(ctx.remaining_s), ctx.cause)
        if which in self.cfg.get("adaptive", []):
            # a strategy object that takes outcome reports, like AdaptiveStrategy
            class OutcomeAware:
                def __call__(self, ctx):
                    return ctx_strategy(ctx)

                def record_failure(self, klass=None):
                    env.trace.append({"e": "srec", "which": which, "what": "failure",
                                      "k": env._cname(klass) if klass is not None else "-", "t": env.now()})

                def record_success(self):
                    env.trace.append({"e": "srec", "which": which, "what": "success", "k": "-",
                                      "t": env.now()})
            return OutcomeAware()
        return ctx_strategy

    # ------------------------------------------------------------------ abort / handler / sleep
    def abort_if(self) -> bool:
        self._fault("abort")
        sc = self._next("poll")
        ans = bool(sc["ans"]) if sc else False
        self.trace.append({"e": "poll", "ans": ans, "t": self.now()})
        if self.flavours:
            return ("abort requested" if ans else "")       # truthy / falsy, not a bool
        return ans

    def handler(self, ctx, sleep_s):
        from redress.sleep import SleepDecision

        self._fault("handler")
        sc = self._next("handler")
        dec = sc["dec"] if sc else "sleep"
        self.trace.append({"e": "handler", "n": getattr(ctx, "attempt", NOT_OURS),
                           "sleep": ticks(sleep_s), "dec": dec, "t": self.now()})
        return {"sleep": SleepDecision.SLEEP, "defer": SleepDecision.DEFER,
                "abort": SleepDecision.ABORT}[dec]

    def _fault(self, site: str, attempt: int | None = None) -> None:
        """Fault injection: raise the configured exception at the k-th call of a site (for the
        classifiers: when asked about attempt k's exception / value)."""
        f = self.site_fault
        if not f or f.get("site") != site:
            return
        self.site_calls[site] = self.site_calls.get(site, 0) + 1
        hit = (f.get("at", 1) == attempt) if attempt is not None else \
            (f.get("at", 1) == self.site_calls[site])
        if hit and (f.get("call") is None or f["call"] == self.call_index):
            self.trace.append({"e": "fault", "site": site, "kind": f["kind"]})
            raise make_exc(f["kind"])

    def astart(self, ctx):
        self.trace.append({"e": "astart", "n": ctx.attempt, "t": self.now()})
        self._fault("astart")
        if self.flavours:
            return "abort"                # whatever a hook returns is of no consequence

    def aend(self, ctx) -> None:
        self.trace.append({"e": "aend", "n": ctx.attempt,
                           "decision": ctx.decision.value if ctx.decision is not None else "-",
                           "stop": ctx.stop_reason.value if ctx.stop_reason is not None else "-",
                           "cause": ctx.cause if ctx.cause is not None else "-",
                           "sleep": ticks(ctx.sleep_s), "t": self.now()})
        self._fault("aend")

    def _hook_raises(self, name: str) -> None:
        self.hook_calls[name] += 1
        f = self.hook_fault
        if f.get("hook") == name and (f.get("at") == "always" or f.get("at") == self.hook_calls[name]):
            raise f["exc"]()

    def _bsleep_common(self, sleep_s) -> None:
        self._fault("bsleep")
        sc = self._next("bsleep")
        fault = sc.get("fault", "none") if sc else "none"
        self.trace.append({"e": "bsleep", "sleep": ticks(sleep_s), "fault": fault, "t": self.now()})
        self._hook_raises("bsleep")
        if fault == "error":
            raise HookError("before_sleep failed")
        if fault in ("kbd", "sysexit", "cancel"):
            exc = {"kbd": KeyboardInterrupt, "sysexit": SystemExit,
                   "cancel": asyncio.CancelledError}[fault]()
            self.bsleep_exc = exc
            raise exc

    def before_sleep(self, ctx, sleep_s):
        self._bsleep_common(sleep_s)
        if self.flavours:
            return sleep_s + 7.0          # whatever a hook returns is of no consequence

    async def abefore_sleep(self, ctx, sleep_s):
        await _Suspend("bsleep")
        self._bsleep_common(sleep_s)
        if self.flavours:
            return sleep_s + 7.0

    # decoys: policy-level callbacks that must never run when call-level ones are given
    def decoy_handler(self, ctx, sleep_s):
        from redress.sleep import SleepDecision
        self.trace.append({"e": "decoy", "what": "handler", "t": self.now()})
        return SleepDecision.SLEEP

    def decoy_before_sleep(self, ctx, sleep_s):
        self.trace.append({"e": "decoy", "what": "before_sleep", "t": self.now()})

    def decoy_sleeper(self, s):
        self.trace.append({"e": "decoy", "what": "sleeper", "t": self.now()})
        self.clock.advance(max(0, ticks(s)))

    def _sleep_common(self, s: float) -> None:
        self.raw_sleeps.append(s)
        self._fault("sleeper")
        sc = self._next("sleep")
        adv = sc["adv"] if sc else "exact"
        t = self.now()
        st = ticks(s)
        if adv in ("kbd", "sysexit", "cancel"):
            self.trace.append({"e": "sleep", "s": st, **_us(s), "adv": adv, "t": t, "t1": t})
            exc = {"kbd": KeyboardInterrupt, "sysexit": SystemExit,
                   "cancel": asyncio.CancelledError}[adv]()
            self.sleeper_exc = exc
            raise exc
        base = st if st >= 0 else 0
        d = {"exact": base, "over1": base + 1, "over4": base + 4, "none": 0}[adv]
        self.clock.advance(d)
        self.trace.append({"e": "sleep", "s": st, **_us(s), "adv": adv, "t": t, "t1": self.now()})

    def sleeper(self, s: float):
        self._sleep_common(s)
        if self.flavours:
            return 0.0

    async def asleeper(self, s: float):
        await _Suspend("sleep")
        self._sleep_common(s)
        if self.flavours:
            return 0.0

    # ------------------------------------------------------------------ observability sinks
    def _tags(self, tags: dict) -> dict:
        k = tags.get("class", "-")
        return {"k": self.inv.get(k, k), "err": "err" in tags, "stop": tags.get("stop_reason", "-"),
                "cause": tags.get("cause", "-"), "op": tags.get("operation") == "op",
                **self._foreign_op(tags)}

    @staticmethod
    def _foreign_op(tags: dict) -> dict:
        """op is TRUE for the operation name given by the caller and FALSE for none (or, for a
        decorated function without an explicit name, its own name); any other name is reported in
        an extra field that no model event has"""
        o = tags.get("operation")
        return {} if o in (None, "op", "target") else {"optag": str(o)}

    _CMP = ("name", "n", "sleep", "k", "err", "stop", "cause", "op", "t")

    def _sink(self, kind: str, rec: dict) -> None:
        """Record one sink call.  A metric record and a log record that are adjacent (in either
        order) and identical are one `emit`: both sinks received the same event."""
        if getattr(self, "single_sink", None):
            # only this sink is configured: every record is the emission
            rec["e"] = "emit"
            rec["dur"] = (self._next("emit") or {}).get("dur", 0)
            self.trace.append(rec)
            self.clock.advance(rec["dur"])
            return
        other = "log" if kind == "metric" else "metric"
        prev = self.trace[-1] if self.trace else None
        if prev is not None and prev["e"] == other and all(prev[x] == rec[x] for x in self._CMP) \
                and prev.get("state") == rec.get("state"):
            merged = dict(rec if kind == "log" else prev)      # the log record carries retry_after_s
            merged["e"] = "emit"
            merged["dur"] = prev["dur"]
            self.trace[-1] = merged
            self.clock.advance(prev["dur"])     # time spent inside the hooks of this emission
        else:
            rec["e"] = kind
            rec["dur"] = (self._next("emit") or {}).get("dur", 0)
            self.trace.append(rec)

    def on_metric(self, event, attempt, sleep_s, tags) -> None:
        rec = {"e": "metric", "name": event, "n": attempt, "sleep": ticks(sleep_s),
               **self._tags(tags), "ra": NONE, "t": self.now()}
        if "state" in tags:
            rec["state"] = tags["state"]
        self._sink("metric", rec)
        if self.flavours and isinstance(tags, dict):
            tags.clear()                  # a hook may do what it likes with the mapping it is handed
            tags["class"] = "scribbled"
        self._hook_raises("metric")
        if self.flavours:
            return False                  # whatever a hook returns is of no consequence

    def on_log(self, event, fields) -> None:
        f = dict(fields)
        attempt = f.pop("attempt", NOT_OURS)
        sleep_s = f.pop("sleep_s", None)
        ra = f.pop("retry_after_s", None)
        rec = {"e": "log", "name": event, "n": attempt, "sleep": ticks(sleep_s), **self._tags(f),
               "ra": ticks(ra), "t": self.now()}
        if "state" in f:
            rec["state"] = f["state"]
        self._sink("log", rec)
        if self.flavours and isinstance(fields, dict):
            fields.clear()
            fields["attempt"] = -99
        self._hook_raises("log")

    # ------------------------------------------------------------------ budget
    def make_budget(self, tokens: int, window: int = 100000):
        from redress.budget import Budget

        env = self

        class SpyBudget(Budget):
            def consume(self, cost: int = 1) -> bool:  # delegates to the real method
                ok = super().consume(cost)
                env.trace.append({"e": "consume", "ok": bool(ok), "t": env.now(), "at": env.clock.now})
                return ok

        with vtime.use_clock(self.clock):
            return SpyBudget(max_retries=tokens, window_s=window * vtime.TICK)

    # ------------------------------------------------------------------ delivery views
    def _view(self, **kw) -> dict:
        v = {"kind": "-", "id": NONE, "ok": False, "stop": "-", "attempts": NONE, "lastk": "-",
             "cause": "-", "lexc": NONE, "lres": NONE, "next": NONE, "own": False}
        v.update(kw)
        return v

    def _exc_id(self, exc: BaseException | None) -> int:
        if exc is None:
            return NONE
        for r, n in zip(self.raised, self.raised_n):     # identity = the attempt that raised it first
            if exc is r:
                return n
        hn = getattr(self, "hang_n", None)
        if hn is not None and type(exc) is TimeoutError and hn == self.ninv:
            # the attempt in progress does not come back: the TimeoutError the runner made for it
            # is that attempt's own exception from its first sighting on (a later sighting of the
            # same object under another attempt, or a second object for this one, is NOT_OURS)
            self.hang_n = None
            self.hang_objs.append(exc)
            self.raised.append(exc)
            self.raised_n.append(hn)
            return hn
        return NOT_OURS

    def _val_id(self, v: Any) -> int:
        if v is None:
            nr = getattr(self, "none_result", None)
            return nr.attempt if nr is not None else NONE
        for x in self.values:
            if v is x:
                return x.attempt
        return NOT_OURS

    def _tb_reaches_op(self, exc: BaseException) -> bool:
        tb = exc.__traceback__
        while tb is not None:
            if tb.tb_frame.f_code is Env.op.__code__:
                return True
            tb = tb.tb_next
        return False

    def view_of_exception(self, exc: BaseException) -> dict:
        from redress.errors import AbortRetryError, RetryExhaustedError

        if self.sleeper_exc is not None and exc is self.sleeper_exc:
            return self._view(kind="cancel", id=SLEEPER_EXC, own=True)
        if self.bsleep_exc is not None and exc is self.bsleep_exc:
            return self._view(kind="cancel", id=BSLEEP_EXC, own=True)
        eid = self._exc_id(exc)
        if eid != NOT_OURS and eid != NONE:
            if isinstance(exc, OpError):
                return self._view(kind="exc", id=eid, own=self._tb_reaches_op(exc))
            if any(exc is h for h in self.hang_objs):
                return self._view(kind="exc", id=eid, own=True)    # the runner's own TimeoutError
            if isinstance(exc, AbortRetryError):
                return self._view(kind="abort", own=True)
            return self._view(kind="cancel", id=eid, own=True)
        if isinstance(exc, RetryExhaustedError):
            return self._view(kind="exhausted", stop=getattr(exc.stop_reason, "value", str(exc.stop_reason)),
                              attempts=exc.attempts, lastk=self._cname(exc.last_class)
                              if exc.last_class is not None else "-",
                              lexc=self._exc_id(exc.last_exception), lres=self._val_id(exc.last_result),
                              next=ticks(exc.next_sleep_s))
        if isinstance(exc, AbortRetryError):
            return self._view(kind="abort", own=False)
        if isinstance(exc, RuntimeError) and "exhausted with no captured exception" in str(exc):
            return self._view(kind="runtime")
        return self._view(kind=f"other:{type(exc).__name__}")

    def view_of_outcome(self, o: Any) -> dict:
        stop = o.stop_reason.value if o.stop_reason is not None else "-"
        return self._view(kind="outcome", id=self._val_id(o.value) if o.ok else NONE, ok=bool(o.ok),
                          stop=stop, attempts=o.attempts,
                          lastk=self._cname(o.last_class) if o.last_class is not None else "-",
                          cause=o.cause if o.cause is not None else "-",
                          lexc=self._exc_id(o.last_exception), lres=self._val_id(o.last_result),
                          next=ticks(o.next_sleep_s))

    def view_of_return(self, v: Any) -> dict:
        return self._view(kind="ret", id=self._val_id(v), ok=True)


# ---------------------------------------------------------------------------
# building the real objects
# ---------------------------------------------------------------------------
def retry_kwargs(env: Env, cfg: dict, *, place: str = "call", atimeout: bool = False,
                 hang: float | None = None) -> tuple[dict, dict]:
    """-> (constructor kwargs for Retry/AsyncRetry/RetryPolicy..., per-call kwargs)"""
    EC = env.EC
    ctor: dict[str, Any] = dict(
        classifier=env.classifier,
        result_classifier=env.rclassifier if cfg["rc"] else None,
        strategy=env.make_strategy("default") if cfg["hasDefault"] else None,
        strategies=({env._ec(k): env.make_strategy(k) for k in cfg["strat"]} or
                    ({} if not cfg["hasDefault"] else None)),
        deadline_s=cfg["D"] * vtime.TICK,
        max_attempts=cfg["maxAtt"],
        max_unknown_attempts=None if cfg["maxUnk"] == NONE else cfg["maxUnk"],
        per_class_max_attempts={env._ec(k): n for k, n in cfg["lim"].items() if n != NONE} or None,
        budget=env.make_budget(cfg["budget"], cfg.get("bW", 100000)) if cfg["budget"] != NONE else None,
    )
    _ = EC
    flav = getattr(env, "flavours", None)
    env.owned = []          # containers the caller still owns: cleared once the objects are built
    if flav:
        # any Mapping will do for the two tables; the caller's own dicts may change afterwards
        from types import MappingProxyType
        for i, key in enumerate(("strategies", "per_class_max_attempts")):
            if isinstance(ctor[key], dict):
                if (cfg["maxAtt"] + i) % 2:
                    ctor[key] = MappingProxyType(ctor[key])
                else:
                    env.owned.append(ctor[key])
    if atimeout:
        ctor["attempt_timeout_s"] = 500.0        # never fires: operations finish at once
    if hang is not None:
        # fires for every "hang" outcome.  Async: ATimeout ticks on the virtual clock the event
        # loop reads.  Sync: the worker thread is waited for in real time (the virtual clock is
        # moved by the operation), so the value only has to be long enough for the thread to start
        ctor["attempt_timeout_s"] = hang
    call: dict[str, Any] = dict(
        on_metric=None if getattr(env, "single_sink", None) == "log" else env.on_metric, on_log=env.on_log,
        operation="op" if cfg["opname"] else None,
        abort_if=env.abort_if if cfg["abort"] else None,
    )
    if cfg.get("hooks"):
        # per-call hooks (RetryPolicy's constructor has no hook parameters)
        call.update(on_attempt_start=env.astart, on_attempt_end=env.aend)
    handler = env.handler if cfg["handler"] else None
    if env.is_async and env.async_callbacks == "lambda":
        # awaitables produced by plain callables (not coroutine functions)
        bsleep = (lambda ctx, s: env.abefore_sleep(ctx, s)) if cfg["bsleep"] else None
        sleeper = lambda s: env.asleeper(s)  # noqa: E731
    elif env.is_async and env.async_callbacks:
        bsleep = env.abefore_sleep if cfg["bsleep"] else None
        sleeper = env.asleeper
    else:
        bsleep = env.before_sleep if cfg["bsleep"] else None
        sleeper = env.sleeper
    if flav and not env.is_async:
        # callables that are falsy objects (e.g. an empty recorder with __len__) are still callables
        handler, bsleep, sleeper = (Falsy(handler) if handler else None, Falsy(bsleep) if bsleep else None,
                                    Falsy(sleeper))
        for key in ("on_metric", "on_log", "abort_if"):
            if call.get(key) is not None:
                call[key] = Falsy(call[key])
    if place == "both":
        # call-level callbacks must win over policy-level ones
        ctor.update(sleep=env.decoy_handler if handler else None,
                    before_sleep=env.decoy_before_sleep if bsleep else None,
                    sleeper=env.decoy_sleeper)
        call.update(sleep=handler, before_sleep=bsleep, sleeper=sleeper)
    else:
        target = call if place == "call" else ctor
        target.update(sleep=handler, before_sleep=bsleep, sleeper=sleeper)
    return ctor, call


from contextlib import contextmanager as _contextmanager


@_contextmanager
def _passthrough():
    yield


class Falsy:
    """a callable object that is falsy and empty"""

    def __init__(self, fn) -> None:
        self.fn = fn

    def __call__(self, *a, **kw):
        return self.fn(*a, **kw)

    def __bool__(self) -> bool:
        return False

    def __len__(self) -> int:
        return 0


def drive(coro, on_suspend=None):
    """Run a coroutine by hand.  on_suspend(label, index) may return an exception instance to
    throw into the coroutine at that suspension point."""
    idx = 0
    to_throw = None
    while True:
        try:
            if to_throw is not None:
                exc, to_throw = to_throw, None
                tok = coro.throw(exc)
            else:
                tok = coro.send(None)
        except StopIteration as stop:
            return stop.value
        idx += 1
        if on_suspend is not None:
            to_throw = on_suspend(getattr(tok, "label", "?"), idx)


def split_runs(events: list[dict]) -> list[list[dict]]:
    runs, cur = [], []
    for e in events:
        cur.append(e)
        if e["e"] == "deliver":
            runs.append(cur)
            cur = []
    if cur:
        runs.append(cur)
    return runs


ENTRY_POINTS = ("Retry", "Policy", "RetryPolicy", "Retry.context", "Policy.context",
                "RetryPolicy.context", "decorator",
                "AsyncRetry", "AsyncPolicy", "AsyncRetryPolicy", "AsyncRetry.context",
                "AsyncPolicy.context", "AsyncRetryPolicy.context", "async-decorator",
                "Retry.from_config", "RetryPolicy.from_config", "AsyncRetry.from_config",
                "AsyncRetryPolicy.from_config")
CALL_ONLY = {e for e in ENTRY_POINTS if "context" in e or "decorator" in e}


def make_entry(entry: str, env: Env, ctor: dict, call: dict, breaker=None, ops=None):
    """-> invoke(mode) that performs one call through the named entry point and returns the
    result (sync) or a coroutine (async).  `ctor`/`call` as built by retry_kwargs."""
    import redress.policy as rp

    is_async = entry.startswith(("Async", "async"))
    op = env.aop if is_async else env.op
    if ops is not None:
        # distinct operation functions per run (re-entrancy): ops["cur"]() picks the one to pass
        def op():
            raise AssertionError("unused")
    base = entry.split(".")[0]
    if entry.endswith(".from_config"):
        # the RetryConfig bundle must configure the same machine as the keyword constructor
        from redress.config import RetryConfig
        kw = dict(ctor)
        classifier = kw.pop("classifier")
        kw["default_strategy"] = kw.pop("strategy")
        kw["class_strategies"] = kw.pop("strategies")
        # one RetryConfig object serves two policies and is edited in between: the decoy policy
        # is built first, from decoy strategies and caps
        rc_obj = RetryConfig(**dict(kw, default_strategy=lambda ctx: 123.0, class_strategies=None,
                                    max_attempts=9, per_class_max_attempts=None))
        getattr(rp, base).from_config(rc_obj, classifier=classifier)
        for k in ("default_strategy", "class_strategies", "max_attempts", "per_class_max_attempts"):
            setattr(rc_obj, k, kw[k])
        obj = getattr(rp, base).from_config(rc_obj, classifier=classifier)
    elif base in ("Retry", "AsyncRetry"):
        obj = getattr(rp, base)(**ctor)
    elif base in ("Policy", "AsyncPolicy"):
        inner = (rp.AsyncRetry if is_async else rp.Retry)(**ctor)
        obj = getattr(rp, base)(retry=inner, circuit_breaker=breaker)
    elif base in ("RetryPolicy", "AsyncRetryPolicy"):
        # the sugar object forwards attribute assignments to its retry component: built with
        # neutral caps, configured by assignment afterwards
        from datetime import timedelta
        obj = getattr(rp, base)(**dict(ctor, max_attempts=7, max_unknown_attempts=None, deadline_s=9999.0))
        obj.max_attempts = ctor["max_attempts"]
        obj.max_unknown_attempts = ctor["max_unknown_attempts"]
        obj.deadline = timedelta(seconds=ctor["deadline_s"])
    elif base in ("decorator", "async-decorator"):
        deco_kw = dict(ctor)
        deco_kw.update({k: v for k, v in call.items()
                        if k in ("on_metric", "on_log", "operation", "abort_if",
                                 "on_attempt_start", "on_attempt_end")})
        # a function with positional and keyword arguments (and a default), decorated once and
        # called many times
        if is_async:
            async def target(x, *, y=None, z=3):
                assert (x, y, z) == (1, 2, 3)
                return await env.aop()
        else:
            def target(x, *, y=None, z=3):
                assert (x, y, z) == (1, 2, 3)
                return env.op()
        # one decorator object decorates several functions
        factory = rp.retry(**deco_kw)
        if is_async:
            async def decoy_fn():
                return None
        else:
            def decoy_fn():
                return None
        factory(decoy_fn)
        wrapped = factory(target)
        return lambda mode: wrapped(1, y=2)
    else:
        raise AssertionError(entry)
    if entry.endswith(".context"):
        # one context object, entered again for every run; the operation is passed with positional
        # and keyword arguments
        ctx_obj = obj.context(**call)
        if is_async:
            async def aop_args(x, *, y=None):
                assert (x, y) == (1, 2)
                return await op()

            async def via_ctx(mode):
                async with ctx_obj as r:
                    return await r(aop_args, 1, y=2)
            return via_ctx

        def op_args(x, *, y=None):
            assert (x, y) == (1, 2)
            return op()

        def via_ctx_sync(mode):
            if ops is not None:
                fn = ops["cur"]()          # this run's own function object
                with ctx_obj as r:
                    return r(lambda x, *, y=None: fn(), 1, y=2)
            with ctx_obj as r:
                return r(op_args, 1, y=2)
        return via_ctx_sync
    if ops is not None:
        return lambda mode: (obj.call if mode == "call" else obj.execute)(ops["cur"](), **call)
    return lambda mode: (obj.call if mode == "call" else obj.execute)(op, **call)


def run_scenario(cfg: dict, events: list[dict], *, entry: str, perm=None, place: str = "call",
                 async_callbacks: bool = False, hook_fault: dict | None = None,
                 wall: str = "jump", site_fault: dict | None = None, hooks: bool = False,
                 force_mode: str | None = None, timeline: bool = False, atimeout: bool = False,
                 loop: bool = False, breaker_cfg: dict | None = None,
                 flavours: str | None = None, entry2: str | None = None,
                 sinks: str | None = None, nosleeper: bool = False, broken_metric: bool = False,
                 hang: float | None = None) -> list[dict]:
    """Execute the scenario through one entry point of the real library; returns the observed
    event list (same vocabulary as M's behaviours)."""
    is_async = entry.startswith(("Async", "async"))
    env = Env(cfg, events, perm=perm, is_async=is_async, async_callbacks=async_callbacks,
              hook_fault=hook_fault, wall=wall)
    env.site_fault = site_fault
    env.flavours = flavours
    env.single_sink = sinks
    ctor, call = retry_kwargs(env, cfg, place=place, atimeout=atimeout, hang=hang)
    if broken_metric:
        # a metric hook that cannot even be called with the documented arguments (a C-level callable:
        # the TypeError has no Python frame of the hook's own)
        call["on_metric"] = {}.update
    if nosleeper and not is_async:
        # no sleeper anywhere: the library's default, time.sleep, must get the delay in one call
        ctor["sleeper"] = None
        call.pop("sleeper", None)
        env.clock.on_default_sleep = env.sleeper
    if hooks:
        call.update(on_attempt_start=env.astart, on_attempt_end=env.aend)
    global LOOP_MODE
    with vtime.use_clock(env.clock):
        # two policy objects built from the same arguments share the budget; runs alternate
        brk = None
        if breaker_cfg is not None and entry.split(".")[0] in ("Policy", "AsyncPolicy"):
            from .policyenv import make_spy_breaker
            brk = make_spy_breaker(env, breaker_cfg)
        # (entry2: the second object is of another kind - e.g. a decorated function - sharing the budget)
        entries = [entry, entry2 or entry]
        invokers = [make_entry(entry, env, ctor, call, brk), make_entry(entries[1], env, ctor, call, brk)]
        for own in getattr(env, "owned", []):
            own.clear()          # the policy objects must have taken copies
        for ci, run in enumerate(split_runs(events)):
            invoke = invokers[ci % 2]
            dl = next((e for e in run if e["e"] == "deliver"), {})
            mode = force_mode or dl.get("mode", "exec")
            if entries[ci % 2] in CALL_ONLY:
                mode = "call"
            env.call_index = ci
            env.start_run()
            tl = None
            call.pop("capture_timeline", None)
            if timeline and mode == "exec":
                from redress.policy.types import RetryTimeline
                tl = RetryTimeline()
                call["capture_timeline"] = tl
            try:
                if is_async and loop:
                    LOOP_MODE = True
                    try:
                        res = asyncio.run(invoke(mode))
                    finally:
                        LOOP_MODE = False
                else:
                    res = drive(invoke(mode)) if is_async else invoke(mode)
            except BaseException as exc:  # noqa: BLE001 - whatever leaves the entry point is observed
                view = env.view_of_exception(exc)
            else:
                view = env.view_of_return(res) if mode == "call" else env.view_of_outcome(res)
            if tl is not None:
                env.trace.append({"e": "timeline", "events": [
                    {"name": te.event, "n": te.attempt, "sleep": ticks(te.sleep_s),
                     "k": env._cname(te.error_class) if te.error_class is not None else "-",
                     "stop": te.stop_reason.value if te.stop_reason is not None else "-",
                     "cause": te.cause if te.cause is not None else "-"} for te in tl.events]})
            gap = dl.get("gap", 0)
            env.trace.append({"e": "deliver", "mode": mode, "v": view, "t": env.now(), "gap": gap})
            if gap:
                env.clock.advance(gap)
    if getattr(env, "hang_release", None) is not None:
        env.hang_release.set()
    return env.trace


# ---------------------------------------------------------------------------
# two overlapping runs on ONE policy object (async): run A is suspended, run B runs to the
# end, run A resumes.  Each run has its own environment script, trace and virtual clock.
# ---------------------------------------------------------------------------
class ProxyEnv:
    """Callbacks handed to the shared policy object; dispatch to the environment of the
    coroutine that is currently running."""

    def __init__(self, envs: list[Env]) -> None:
        self.envs = envs
        self.cur = 0
        e0 = envs[0]
        self.EC, self.cfg, self.is_async, self.async_callbacks = e0.EC, e0.cfg, True, e0.async_callbacks
        self.perm, self.inv = e0.perm, e0.inv

    def _e(self) -> Env:
        return self.envs[self.cur]

    def _ec(self, k):
        return self.envs[0]._ec(k)

    def make_strategy(self, which: str):
        fns = [e.make_strategy(which) for e in self.envs]
        if which in self.cfg.get("legacy", []):
            def legacy(attempt, klass, prev_sleep_s):
                return fns[self.cur](attempt, klass, prev_sleep_s)
            return legacy

        def ctx_strategy(ctx):
            return fns[self.cur](ctx)
        return ctx_strategy

    def classifier(self, exc):
        return self._e().classifier(exc)

    def rclassifier(self, v):
        return self._e().rclassifier(v)

    def abort_if(self):
        return self._e().abort_if()

    def handler(self, ctx, s):
        return self._e().handler(ctx, s)

    def before_sleep(self, ctx, s):
        return self._e().before_sleep(ctx, s)

    def abefore_sleep(self, ctx, s):
        return self._e().abefore_sleep(ctx, s)

    def sleeper(self, s):
        return self._e().sleeper(s)

    def asleeper(self, s):
        return self._e().asleeper(s)

    def on_metric(self, *a):
        return self._e().on_metric(*a)

    def on_log(self, *a):
        return self._e().on_log(*a)

    def aop(self):
        return self._e().aop()

    def astart(self, ctx):
        return self._e().astart(ctx)

    def aend(self, ctx):
        return self._e().aend(ctx)

    def decoy_handler(self, ctx, s):
        return self._e().decoy_handler(ctx, s)

    def decoy_before_sleep(self, ctx, s):
        return self._e().decoy_before_sleep(ctx, s)

    def decoy_sleeper(self, s):
        return self._e().decoy_sleeper(s)

    def make_budget(self, *a, **kw):
        return self._e().make_budget(*a, **kw)

    def op(self):
        hook = getattr(self, "before_op", None)
        if hook is not None:
            hook()
        return self._e().op()


def run_nested(cfg: dict, events_a: list[dict], events_b: list[dict], *, entry: str = "Retry",
               nest_at: int = 1, place: str = "ctor", force_mode: str | None = None):
    """Re-entrancy on ONE sync policy object: run A's nest_at-th operation invocation first makes a
    complete run B through the same object, then produces its own outcome.  -> (trace_a, trace_b).
    cfg must not use a budget (each run has its own clock)."""
    envs = [Env(cfg, ev, is_async=False) for ev in (events_a, events_b)]
    px = ProxyEnv(envs)
    px.is_async = False
    ctor, call = retry_kwargs(px, cfg, place=place)   # type: ignore[arg-type]
    # each run passes its OWN function object: run A's retries must invoke A's function again
    fns: list = []

    def make_fn(i):
        def fn():
            if i == 0:
                before_op()
            return envs[i].op()
        fn.__name__ = f"operation_{'ab'[i]}"
        return fn
    ops = {"cur": lambda: fns[px.cur]}
    invoke = make_entry(entry, px, ctor, call, ops=ops)         # type: ignore[arg-type]
    modes = [next((e["mode"] for e in ev if e["e"] == "deliver"), "exec") for ev in (events_a, events_b)]
    if entry in CALL_ONLY:
        modes = ["call", "call"]
    elif force_mode:
        modes = [force_mode, force_mode]
    results: list = [None, None]
    state = {"nested": False}

    def run(i):
        try:
            results[i] = ("ok", invoke(modes[i]))
        except BaseException as exc:  # noqa: BLE001
            results[i] = ("exc", exc)

    def before_op():
        if px.cur == 0 and not state["nested"] and envs[0].ninv + 1 == nest_at:
            state["nested"] = True
            px.cur = 1
            vtime.set_active(envs[1].clock)
            run(1)
            px.cur = 0
            vtime.set_active(envs[0].clock)
    fns.extend([make_fn(0), make_fn(1)])
    try:
        for e in envs:
            e.start_run()
        px.cur = 0
        vtime.set_active(envs[0].clock)
        run(0)
    finally:
        vtime.set_active(None)
    out = []
    for i, e in enumerate(envs):
        if results[i] is None:          # run A ended before its nest_at-th invocation
            out.append(None)
            continue
        kind, val = results[i]
        px.cur = i
        if kind == "exc":
            view = e.view_of_exception(val)
        else:
            view = e.view_of_return(val) if modes[i] == "call" else e.view_of_outcome(val)
        e.trace.append({"e": "deliver", "mode": modes[i], "v": view, "t": e.now(), "gap": 0})
        out.append(e.trace)
    return out[0], out[1]


def run_overlap(cfg: dict, events_a: list[dict], events_b: list[dict], *, entry: str = "AsyncRetry",
                switch_at: int = 2, async_callbacks=True, place: str = "ctor"):
    """-> (trace_a, trace_b).  cfg must not use a budget (each run has its own clock)."""
    envs = [Env(cfg, ev, is_async=True, async_callbacks=async_callbacks) for ev in (events_a, events_b)]
    px = ProxyEnv(envs)
    ctor, call = retry_kwargs(px, cfg, place=place)   # type: ignore[arg-type]
    invoke = make_entry(entry, px, ctor, call)         # type: ignore[arg-type]
    modes = [next((e["mode"] for e in ev if e["e"] == "deliver"), "exec") for ev in (events_a, events_b)]

    def step(i, coro, to_throw=None):
        px.cur = i
        vtime.set_active(envs[i].clock)
        return coro.send(None)

    results: list = [None, None]

    def finish(i, coro):
        try:
            while True:
                step(i, coro)
        except StopIteration as stop:
            results[i] = ("ok", stop.value)
        except BaseException as exc:  # noqa: BLE001
            results[i] = ("exc", exc)

    try:
        for e in envs:
            e.start_run()
        px.cur = 0
        vtime.set_active(envs[0].clock)
        ca = invoke(modes[0])
        done_a = False
        try:
            for _ in range(switch_at):
                step(0, ca)
        except StopIteration as stop:
            results[0] = ("ok", stop.value)
            done_a = True
        except BaseException as exc:  # noqa: BLE001
            results[0] = ("exc", exc)
            done_a = True
        px.cur = 1
        vtime.set_active(envs[1].clock)
        cb = invoke(modes[1])
        finish(1, cb)
        if not done_a:
            finish(0, ca)
    finally:
        vtime.set_active(None)
    for i, e in enumerate(envs):
        kind, val = results[i]
        px.cur = i
        if kind == "exc":
            view = e.view_of_exception(val)
        else:
            view = e.view_of_return(val) if modes[i] == "call" else e.view_of_outcome(val)
        e.trace.append({"e": "deliver", "mode": modes[i], "v": view, "t": e.now(), "gap": 0})
    return envs[0].trace, envs[1].trace
