"""Batch validation of recorded traces by a TLC trace specification."""
from __future__ import annotations

import json
import os

from .common import WORK, Machinery
from .tlc import SPEC, run_tlc


def tlc_validate(module: str, traces: list[dict], tag: str, *, keys=("cfg", "ev"),
                 batch: int = 4000) -> list[dict]:
    """Validate `traces` with spec/<module>.tla (+ <module>.cfg.tpl); one verdict per trace:
    {tid, viol: [clauses], first, conf, ...}.  A trace that TLC cannot consume completely is
    a machinery failure, never a verdict."""
    verdicts: list[dict] = []
    states = 0
    for off in range(0, len(traces), batch):
        part = traces[off:off + batch]
        WORK.mkdir(exist_ok=True)
        tf = WORK / f"trace-{tag}-{os.getpid()}.json"
        cf = WORK / f"{module}-{tag}-{os.getpid()}.cfg"
        tf.write_text(json.dumps([{k: t[k] for k in keys} for t in part]))
        cf.write_text((SPEC / f"{module}.cfg.tpl").read_text().replace("@N@", str(len(part))))
        try:
            res = run_tlc(f"{module}.tla", str(cf), workers=1, env={"TRACE_FILE": str(tf)},
                          tag=f"tr-{tag}", timeout=3000)
        finally:
            tf.unlink(missing_ok=True)
            cf.unlink(missing_ok=True)
        if not res.ok:
            raise Machinery(f"trace spec {module} reported {res.violated}\n{res.output[-2000:]}")
        vs = sorted((v[0] for v in res.tagged.get("VERDICT", [])), key=lambda v: v["tid"])
        if [v["tid"] for v in vs] != list(range(1, len(part) + 1)):
            raise Machinery(f"{module}: consumed {len(vs)} of {len(part)} traces")
        verdicts += vs
        states += res.distinct
    for v in verdicts:
        v["_states"] = states
    return verdicts
