"""Symbolic (Apalache) checks of inductive invariants, bound to the TLC models.

symbolic(name, ...) for name in {"BudgetInd", "BreakerInd"}:
  1. Apalache:  Init => IndInv  and  IndInv /\\ Next => IndInv'  on spec/<name>Apa.tla, for
     arbitrary integer parameters and times (sequences of up to Gen(n) entries in the pre-state);
  2. vacuity guard: textual mutants of spec/<name>.tla whose inductive step must be refuted;
  3. TLC cross-check spec/<name>X.tla: for small constants every step of <name> is the
     corresponding operator of Budget.tla / Breaker.tla with the same results (and verdicts).
Anything else than these outcomes is a machinery failure.
"""
from __future__ import annotations

import os
import shutil
import subprocess
import time

from .common import Machinery
from .tlc import run_tlc
from .tracecheck import SPEC, WORK


def _apalache(tla_dir, module: str, init: str, length: int, timeout: int) -> tuple[str, str]:
    out = WORK / f"apa-{module}-{os.getpid()}"
    cmd = ["apalache-mc", "check", "--cinit=ConstInit", f"--init={init}", "--inv=IndInv",
           f"--length={length}", f"--out-dir={out}", f"{module}.tla"]
    tmpd = WORK / f"apa-tmp-{os.getpid()}"
    tmpd.mkdir(parents=True, exist_ok=True)
    env = dict(os.environ, JAVA_IO_TMPDIR=str(tmpd), TMPDIR=str(tmpd))     # the parser's scratch files
    try:
        p = subprocess.run(cmd, cwd=tla_dir, capture_output=True, text=True, timeout=timeout, env=env)
    except subprocess.TimeoutExpired as exc:
        raise Machinery(f"apalache timed out on {module} ({init})") from exc
    finally:
        shutil.rmtree(out, ignore_errors=True)
        shutil.rmtree(tmpd, ignore_errors=True)
        try:
            os.rmdir(os.path.join(tla_dir, "tmp"))      # apalache leaves an empty directory behind
        except OSError:
            pass
    text = p.stdout + p.stderr
    if "The outcome is: NoError" in text and "EXITCODE: OK" in text:
        return "ok", text
    if "The outcome is: Error" in text and "invariant" in text:
        return "violated", text
    raise Machinery(f"apalache failed on {module} ({init}):\n{text[-1500:]}")


def symbolic(name: str, *, mutants: dict[str, tuple[str, str]], cross: list[dict],
             timeout: int = 1500) -> dict:
    WORK.mkdir(exist_ok=True)
    t0 = time.time()
    apa = f"{name}Apa"
    r0, text0 = _apalache(SPEC, apa, "Init", 0, timeout)
    if r0 != "ok":
        raise Machinery(f"{name}: IndInv does not hold initially\n{text0[-1500:]}")
    r1, text1 = _apalache(SPEC, apa, "IndInit", 1, timeout)
    if r1 != "ok":
        raise Machinery(f"{name}: IndInv is not inductive\n{text1[-1500:]}")
    refuted = []
    core = (SPEC / f"{name}.tla").read_text()
    for mname, (old, new) in mutants.items():
        if old not in core:
            raise Machinery(f"{name}: mutant {mname} does not apply")
        mdir = WORK / f"apa-mut-{os.getpid()}"
        shutil.rmtree(mdir, ignore_errors=True)
        mdir.mkdir()
        (mdir / f"{name}.tla").write_text(core.replace(old, new))
        shutil.copy(SPEC / f"{apa}.tla", mdir / f"{apa}.tla")
        try:
            rm, _ = _apalache(mdir, apa, "IndInit", 1, timeout)
        finally:
            shutil.rmtree(mdir, ignore_errors=True)
        if rm != "violated":
            raise Machinery(f"vacuity guard: mutant {mname} of {name} was not refuted")
        refuted.append(mname)
    # TLC cross-check against the operators the traces are validated with
    tpl = (SPEC / f"{name}X.cfg.tpl").read_text()
    states = 0
    for consts in cross:
        text = tpl
        for k, v in consts.items():
            text = text.replace(f"@{k}@", str(v))
        cf = WORK / f"{name}X-{os.getpid()}.cfg"
        cf.write_text(text)
        try:
            res = run_tlc(f"{name}X.tla", str(cf), workers=4, tag=f"{name}X", timeout=timeout)
        finally:
            cf.unlink(missing_ok=True)
        if not res.ok:
            raise Machinery(f"{name}X: the symbolic formulation differs from the TLC model for {consts}: "
                            f"{res.violated}\n{res.output[-1500:]}")
        states += res.distinct
    return {"modules": [f"spec/{name}.tla", f"spec/{apa}.tla", f"spec/{name}X.tla"],
            "inductive_invariant": "IndInv", "init_holds": True, "step_preserved": True,
            "mutants_refuted": refuted, "crosscheck_constants": cross, "crosscheck_states": states,
            "wall_s": round(time.time() - t0, 1)}


def budget_symbolic(tier: str) -> dict:
    muts = {"prune-keeps-boundary": ("Keep(e) == e > cutoff", "Keep(e) == e >= cutoff")}
    if tier != "quick":
        muts["capacity-off-by-one"] = ("IF Len(q1) + cost > Max THEN 0 ELSE 1",
                                       "IF Len(q1) + cost > Max + 1 THEN 0 ELSE 1")
    cross = [{"MAX": m, "W": w} for m, w in ((0, 1), (1, 2), (2, 3), (3, 2))]
    if tier != "quick":
        cross += [{"MAX": m, "W": w} for m in (1, 3, 4) for w in (1, 4)]
    return symbolic("BudgetInd", mutants=muts, cross=cross)


def breaker_symbolic(tier: str) -> dict:
    muts = {"recovery-boundary": ("mAllowed == IF st = \"open\" THEN t - openedAt >= R",
                                  "mAllowed == IF st = \"open\" THEN t - openedAt > R")}
    if tier != "quick":
        muts.update({
            "prune-keeps-boundary": ("Keep(e) == e > cutoff", "Keep(e) == e >= cutoff"),
            "probe-flag-survives-failure": ("        /\\ probe' = IF st = \"half\" THEN FALSE ELSE probe\n        /\\ fails' = IF mOpens",
                                            "        /\\ probe' = probe\n        /\\ fails' = IF mOpens"),
            "class-threshold-off-by-one": ("IF HasThr(k) /\\ Len(bucket) >= CThr THEN TRUE",
                                           "IF HasThr(k) /\\ Len(bucket) > CThr THEN TRUE")})
    cross = [{"THR": 2, "W": 3, "R": 2, "CTHR": 2, "KTRIP": "FALSE"},
             {"THR": 1, "W": 2, "R": 1, "CTHR": 0, "KTRIP": "TRUE"},
             {"THR": 3, "W": 2, "R": 3, "CTHR": 1, "KTRIP": "TRUE"}]
    if tier != "quick":
        cross += [{"THR": t, "W": w, "R": 2, "CTHR": ct, "KTRIP": "TRUE" if (t + w + ct) % 2 else "FALSE"}
                  for t in (1, 3) for w in (1, 4) for ct in (0, 2)]
    return symbolic("BreakerInd", mutants=muts, cross=cross)


def caps_symbolic(tier: str) -> dict:
    muts = {"per-class-cap-off-by-one": ("CappedP(lim, c1) == lim # -1 /\\ c1 > lim ",
                                         "CappedP(lim, c1) == lim # -1 /\\ c1 > lim + 1 "),
            "global-cap-off-by-one": ("LateMustP(maxatt, a) == a >= maxatt", "LateMustP(maxatt, a) == a > maxatt")}
    if tier != "quick":
        muts.update({
            "non-retryable-retried": ("CappedP(lim, c1) \\/ k = \"P\" \\/ (k = \"U\"", "CappedP(lim, c1) \\/ (k = \"U\""),
            "unknown-cap-off-by-one": ("maxunk # -1 /\\ u1 > maxunk)", "maxunk # -1 /\\ u1 > maxunk + 1)")})
    return symbolic("CapsInd", mutants=muts, cross=[{}])
