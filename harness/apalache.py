"""Symbolic (Apalache) checks of inductive invariants: spec/apalache/<module>.tla.

apalache_inductive(module) runs
    Init    => IndInv            (--init=Init    --inv=IndInv --length=0)
    IndInv /\\ Next => IndInv'    (--init=IndInit --inv=IndInv --length=1)
and, as a vacuity guard, the inductive step of each listed textual mutant of the module, which
must be refuted.  Anything else than these outcomes is a machinery failure.
"""
from __future__ import annotations

import os
import shutil
import subprocess
import time

from .common import Machinery
from .tracecheck import SPEC, WORK


def _run(tla_dir, module: str, init: str, length: int, cinit: str | None, timeout: int) -> tuple[str, str]:
    out = WORK / f"apa-{module}-{os.getpid()}"
    cmd = ["apalache-mc", "check", f"--init={init}", "--inv=IndInv", f"--length={length}",
           f"--out-dir={out}"] + ([f"--cinit={cinit}"] if cinit else []) + [f"{module}.tla"]
    try:
        p = subprocess.run(cmd, cwd=tla_dir, capture_output=True, text=True, timeout=timeout)
    except subprocess.TimeoutExpired as exc:
        raise Machinery(f"apalache timed out on {module} ({init})") from exc
    finally:
        shutil.rmtree(out, ignore_errors=True)
    text = p.stdout + p.stderr
    if "The outcome is: NoError" in text and "EXITCODE: OK" in text:
        return "ok", text
    if "The outcome is: Error" in text and "invariant" in text:
        return "violated", text
    raise Machinery(f"apalache failed on {module} ({init}):\n{text[-1500:]}")


def apalache_inductive(module: str, *, cinit: str | None = "ConstInit",
                       mutants: dict[str, tuple[str, str]] | None = None, timeout: int = 1500) -> dict:
    WORK.mkdir(exist_ok=True)
    src_dir = SPEC / "apalache"
    t0 = time.time()
    r0, text0 = _run(src_dir, module, "Init", 0, cinit, timeout)
    if r0 != "ok":
        raise Machinery(f"{module}: IndInv does not hold initially\n{text0[-1500:]}")
    r1, text1 = _run(src_dir, module, "IndInit", 1, cinit, timeout)
    if r1 != "ok":
        raise Machinery(f"{module}: IndInv is not inductive\n{text1[-1500:]}")
    refuted = []
    for name, (old, new) in (mutants or {}).items():
        text = (src_dir / f"{module}.tla").read_text()
        if old not in text:
            raise Machinery(f"{module}: mutant {name} does not apply")
        mdir = WORK / f"apa-mut-{os.getpid()}"
        mdir.mkdir(exist_ok=True)
        mmod = f"{module}Mut"
        (mdir / f"{mmod}.tla").write_text(text.replace(old, new).replace(f"MODULE {module}", f"MODULE {mmod}"))
        try:
            rm, _ = _run(mdir, mmod, "IndInit", 1, cinit, timeout)
        finally:
            shutil.rmtree(mdir, ignore_errors=True)
        if rm != "violated":
            raise Machinery(f"vacuity guard: mutant {name} of {module} was not refuted")
        refuted.append(name)
    return {"module": f"spec/apalache/{module}.tla", "inductive_invariant": "IndInv",
            "init_holds": True, "step_preserved": True, "mutants_refuted": refuted,
            "wall_s": round(time.time() - t0, 1)}
