"""Relational properties decided on the real code over scenario spaces enumerated by TLC.

C12  all entry points agree: every behaviour exported by TLC (RetryMC_C12x) - plus variants in
     which one callback raises - is executed through all 14 entry points (Retry, Policy,
     RetryPolicy, their context managers, the @retry decorator and the async twins; call- and
     execute-style where the entry point has both).  Normalised traces must be pairwise equal;
     call() and execute() may differ only in the delivery, and the two deliveries must be related
     by RetryLoop!CallOfExec (checked by TLC in spec/PairCheck.tla, and as an invariant of M).
C15  observability hooks never alter control flow: every behaviour is re-executed with
     on_metric / on_log / before_sleep raising at invocation j (each j, and always) for several
     exception types, at retry level and at policy level (breaker events); the trace must equal
     the silent-hook trace of the same entry point.
TLC's part is the scenario space and M's prediction (each silent trace is also compared with
M); the verdict is the relation between executions of the real code.
"""
from __future__ import annotations

import json
import random
from concurrent.futures import ProcessPoolExecutor

from . import retryenv
from .common import Machinery, Report, seed
from .retrycheck import export_behaviours, full_cfg
from .tlc import pick_cfg, run_tlc
from .tracecheck import tlc_validate

_G: dict = {}


def _init(configs, sd):
    _G["configs"], _G["seed"] = configs, sd


def normalise(trace: list[dict]) -> list[dict]:
    """what C12 compares: invocations, strategy calls, sleeps, emitted events, budget (and
    breaker) interactions, handler/hook calls; not the delivery, not classifier calls made
    after the terminal event (Policy re-classifies the raised exception for the breaker)."""
    out = []
    terminal = False
    for i, e in enumerate(trace):
        if e["e"] == "deliver":
            terminal = False
            continue
        if e["e"] in ("astart", "aend"):       # attempt hooks are not among the compared effects
            continue
        if e["e"] in ("allow", "rec"):         # breaker interactions are compared separately
            continue
        if e["e"] == "emit" and e["name"] != "retry":
            terminal = True
        if e["e"] == "classify":
            j = i + 1
            while j < len(trace) and (trace[j]["e"] in ("rec", "allow") or
                                      (trace[j]["e"] == "emit" and "state" in trace[j])):
                j += 1
            if terminal or (j < len(trace) and trace[j]["e"] == "deliver"):
                continue
        if e["e"] == "emit" and "state" in e:      # breaker events: compared with the breaker ops
            continue
        out.append(e)
    return out


def breaker_ops(trace: list[dict]) -> list[tuple]:
    return [(e["e"], e.get("allowed"), e.get("op"), e.get("k")) for e in trace if e["e"] in ("allow", "rec")]


BREAKER_CFG = {"thr": 3, "W": 100000, "R": 5,
               "trip": ["TRANSIENT", "RATE_LIMIT", "UNKNOWN", "PERMANENT", "CONCURRENCY", "SERVER_ERROR",
                        "AUTH", "PERMISSION"], "cthr": {}}


def deliveries(trace: list[dict]) -> list[dict]:
    return [e["v"] for e in trace if e["e"] == "deliver"]


SITE_FAULTS = [None] + [{"site": s, "at": at, "kind": "error"}
                        for s in ("strategy", "sleeper", "astart", "aend", "handler", "classifier",
                                  "rclassifier")
                        for at in (1, 2)]


def _c12_chunk(chunk):
    configs = _G["configs"]
    res = {"runs": 0, "viol": [], "pairs": [], "drift": 0, "scen": 0}
    for idx, cid, events, faults in chunk:
        cfg = configs[cid - 1]
        for fault in faults:
            res["scen"] += 1
            traces: dict[tuple, list] = {}
            for entry in retryenv.ENTRY_POINTS:
                modes = ("call",) if entry in retryenv.CALL_ONLY else ("call", "exec")
                for mode in modes:
                    try:
                        place = "ctor" if "decorator" in entry or idx % 3 == 0 else \
                            ("call" if idx % 3 == 1 else "both")
                        tr = retryenv.run_scenario(cfg, events, entry=entry, place=place,
                                                   force_mode=mode, site_fault=fault,
                                                   breaker_cfg=BREAKER_CFG,
                                                   # python types of exceptions / aborts / results vary per
                                                   # entry point; policies with a breaker treat an escaping
                                                   # CircuitOpenError specially, so not that one there
                                                   flavours=(None if idx % 2 else
                                                             "nocircuit" if entry.split(".")[0] in ("Policy", "AsyncPolicy")
                                                             else "all"),
                                                   hooks=fault is not None and fault["site"] in ("astart", "aend"),
                                                   async_callbacks=(entry.startswith("Async") and
                                                                    [False, True, "lambda"][idx % 3]))
                    except Exception as exc:  # noqa: BLE001
                        tr = [{"e": "harness-error", "what": f"{type(exc).__name__}: {exc}"}]
                    traces[(entry, mode)] = tr
                    res["runs"] += 1
            refs = {m: normalise(traces[("Retry", m)]) for m in ("call", "exec")}
            if fault is None and refs["call"] != normalise(events):
                res["drift"] += 1
            refd = {m: deliveries(traces[("Retry", m)]) for m in ("call", "exec")}

            def viol(what, a, b):
                res["viol"].append({"what": what, "a": a, "b": b, "fault": fault, "cfg": full_cfg(cfg),
                                    "script": events, "trace_a": traces[a], "trace_b": traces[b]})
            # the two styles perform the same work ...
            if refs["call"] != refs["exec"]:
                viol("events", ("Retry", "call"), ("Retry", "exec"))
            # ... and every entry point agrees with the reference of its style
            for key, tr in traces.items():
                if normalise(tr) != refs[key[1]]:
                    viol("events", ("Retry", key[1]), key)
                elif deliveries(tr) != refd[key[1]]:
                    viol("delivery", ("Retry", key[1]), key)
            # breaker interactions: the four Policy/AsyncPolicy entry points (and their context
            # managers) must report the same admissions and the same settlement
            if fault is None:
                pol = {k: breaker_ops(t) for k, t in traces.items() if k[0].split(".")[0] in ("Policy", "AsyncPolicy")}
                refk = ("Policy", "call")
                for k, ops in pol.items():
                    if ops != pol[refk]:
                        viol("breaker-interactions", refk, k)
            # call vs execute: related deliveries
            for c, x in zip(refd["call"], refd["exec"]):
                res["pairs"].append({"call": c, "exec": x, "fault": fault, "cfg": full_cfg(cfg),
                                     "script": events, "beh": idx})
    return res


def c12_signature(v: dict) -> str:
    a, b, f = v["a"], v["b"], v["fault"]
    where = f"{f['site']}-raises" if f else "no-fault"
    if a[1] != b[1] and v["what"] != "breaker-interactions":
        return f"C12/call-vs-execute/{where}"
    return f"C12/{a[0]}.{a[1]}-vs-{b[0]}.{b[1]}/{where}/{v['what']}"



# ---------------------------------------------------------------------------
# attempt timeouts that really fire (real time, no virtual clock): the sync and async twins and
# the wrappers must still perform the same invocations and report the same events
# ---------------------------------------------------------------------------
ATT_TIMEOUT = 0.15      # real seconds: wide enough not to fire on an attempt that returns at once
HANG_SCRIPTS = [["hang", "ok"], ["hang", "hang", "ok"], ["exc", "hang", "ok"], ["hang", "exc", "exc"],
                ["hang", "hang", "hang"], ["ok"]]


def _timeout_run(entry: str, script: list[str], mode: str) -> list:
    import asyncio
    import threading

    import redress.policy as rp
    from redress.errors import ErrorClass

    is_async = entry.startswith("Async") or entry == "async-decorator"
    log: list = []
    release = threading.Event()
    n = {"i": 0}

    class Boom(Exception):
        pass

    def outcome():
        i = n["i"]
        n["i"] += 1
        kind = script[i] if i < len(script) else "ok"
        log.append(("invoke", i + 1, kind))
        return kind

    def op():
        kind = outcome()
        if kind == "hang":
            release.wait(5.0)          # far beyond the attempt timeout; released when the run is over
            return "late"
        if kind == "exc":
            raise Boom()
        return "value"

    async def aop():
        kind = outcome()
        if kind == "hang":
            await asyncio.sleep(5.0)   # cancelled by the attempt timeout
            return "late"
        if kind == "exc":
            raise Boom()
        return "value"

    def on_metric(event, attempt, sleep_s, tags):
        log.append(("event", event, attempt, tags.get("class"), tags.get("stop_reason")))

    kw = dict(classifier=lambda exc: ErrorClass.TRANSIENT, strategy=lambda ctx: 0.0, max_attempts=3,
              attempt_timeout_s=ATT_TIMEOUT, deadline_s=60.0)
    call_kw = dict(on_metric=on_metric)
    try:
        if entry in ("Retry", "AsyncRetry", "RetryPolicy", "AsyncRetryPolicy"):
            obj = getattr(rp, entry)(**kw)
        elif entry in ("Policy", "AsyncPolicy"):
            obj = getattr(rp, entry)(retry=(rp.AsyncRetry if is_async else rp.Retry)(**kw))
        else:
            wrapped = rp.retry(**kw, on_metric=on_metric)(aop if is_async else op)
            obj = None
        try:
            if obj is None:
                res = asyncio.run(wrapped()) if is_async else wrapped()
            else:
                m = obj.call if mode == "call" else obj.execute
                res = asyncio.run(m(aop, **call_kw)) if is_async else m(op, **call_kw)
        except BaseException as exc:  # noqa: BLE001
            log.append(("raised", type(exc).__name__))
        else:
            if mode == "call" or obj is None:
                log.append(("returned", res))
            else:
                log.append(("outcome", res.ok, getattr(res.stop_reason, "value", None), res.attempts,
                            type(res.last_exception).__name__ if res.last_exception is not None else None))
    finally:
        release.set()
    return log


def timeout_twins(rep: Report, tier: str = "quick") -> int:
    from . import vtime as _vt
    _vt.set_active(None)              # real time
    runs = 0
    for script in HANG_SCRIPTS:
        for mode in ("call", "exec"):
            entries = ["Retry", "AsyncRetry", "Policy"]
            if tier != "quick":
                entries += ["AsyncPolicy", "RetryPolicy", "AsyncRetryPolicy"]
                if mode == "call":
                    entries += ["decorator", "async-decorator"]
            ref = None
            for entry in entries:
                log = _timeout_run(entry, script, mode)
                runs += 1
                if ref is None:
                    ref = (entry, log)
                elif log != ref[1]:
                    rep.add_violation("C12:entry-points-disagree-when-attempt-timeouts-fire",
                                      f"C12/{ref[0]}.{mode}-vs-{entry}.{mode}/attempt-timeout-fires", {
                                          "script": script, "style": mode, "attempt_timeout_s": ATT_TIMEOUT,
                                          "entry_a": ref[0], "observed_a": ref[1],
                                          "entry_b": entry, "observed_b": log,
                                          "how": "harness.relcheck._timeout_run(entry, script, style): the "
                                                 "operation hangs (real time) on the marked attempts"})
    return runs


def nested_contexts(rep: Report, configs, behs, tier: str) -> int:
    """Re-entrancy: the operation of run A makes a whole run B through the same object (for the
    context managers: the same context object) before producing its own outcome.  Every entry point
    must perform the same work as Retry.call for both runs."""
    rng = random.Random(seed() + 121)
    by_cfg: dict = {}
    for b in behs:
        if sum(1 for e in b["h"] if e["e"] == "deliver") == 1:
            by_cfg.setdefault(b["c"], []).append(b)
    pool = [(c, bs) for c, bs in sorted(by_cfg.items()) if len(bs) >= 2]
    runs = 0
    for _ in range(60 if tier == "quick" else 1500):
        c, bs = pool[rng.randrange(len(pool))]
        a, b2 = rng.sample(bs, 2)
        cfg = dict(configs[c - 1], budget=-1)        # each run has its own clock: no shared budget
        k = rng.choice([1, 2])
        ref = retryenv.run_nested(cfg, a["h"], b2["h"], nest_at=k, entry="Retry", force_mode="call")
        for entry in ("Retry.context", "Policy.context", "RetryPolicy.context", "Policy", "RetryPolicy"):
            got = retryenv.run_nested(cfg, a["h"], b2["h"], nest_at=k, entry=entry, force_mode="call")
            runs += 1
            for which, (x, y) in enumerate(zip(ref, got)):
                if (x is None) != (y is None) or (x is not None and normalise(x) != normalise(y)):
                    rep.add_violation("C12:entry-points-disagree-on-events",
                                      f"C12/Retry.call-vs-{entry}.call/nested-runs/events", {
                                          "entry_a": ["Retry", "call"], "entry_b": [entry, "call"],
                                          "cfg": full_cfg(cfg), "script_outer": a["h"], "script_inner": b2["h"],
                                          "inner_run_made_by_outer_invocation": k,
                                          "which_run_differs": "outer" if which == 0 else "inner",
                                          "trace_a": x, "trace_b": y,
                                          "how": "harness.retryenv.run_nested(cfg, outer, inner, nest_at=k, "
                                                 "entry=<entry>, force_mode='call')"})
                    break
    return runs

def check_c12(tier: str) -> Report:
    rep = Report(prop="C12", tier=tier, level="model_checking")
    mc = run_tlc("RetryMC.tla", "RetryMC_C12.cfg", tag="C12-mc", timeout=3000)
    if not mc.ok:
        raise Machinery(f"M violates {mc.violated} in RetryMC_C12.cfg\n{mc.output[-2000:]}")
    configs, behs, ex = export_behaviours(pick_cfg("RetryMC_C12x", tier), "C12-exp")
    rng = random.Random(seed() + 12)
    # behaviours exported with Modes = {"exec"}: the style is forced per entry point
    items = []
    for i, b in enumerate(behs):
        faults = [None]
        if i % (4 if tier == "quick" else 1) == 0:
            faults += [f for f in SITE_FAULTS[1:] if rng.random() < (0.25 if tier == "quick" else 1.0)]
        items.append((i, b["c"], b["h"], faults))
    # every raising callback is exercised on the first behaviours that call it often enough,
    # whatever the seed
    site_event = {"strategy": "strategy", "sleeper": "sleep", "handler": "handler",
                  "classifier": "classify", "rclassifier": "rclassify", "astart": "invoke", "aend": "invoke"}
    for f in SITE_FAULTS[1:]:
        found = 0
        for it in items:
            if sum(1 for e in it[2] if e["e"] == site_event[f["site"]]) >= f["at"] and f not in it[3]:
                it[3].append(f)
                found += 1
                if found == 4:
                    break
    size = max(10, len(items) // 112 + 1)
    chunks = [items[i:i + size] for i in range(0, len(items), size)]
    tot = {"runs": 0, "viol": [], "pairs": [], "drift": 0, "scen": 0}
    with ProcessPoolExecutor(max_workers=14, initializer=_init, initargs=(configs, seed())) as exr:
        for r in exr.map(_c12_chunk, chunks):
            for k in ("runs", "drift", "scen"):
                tot[k] += r[k]
            tot["viol"] += r["viol"]
            tot["pairs"] += r["pairs"]
    for v in tot["viol"]:
        if any(e.get("e") == "harness-error" for e in v["trace_a"] + v["trace_b"]):
            raise Machinery(f"harness error: {v['trace_a'][-1]} / {v['trace_b'][-1]}")
        rep.add_violation(f"C12:entry-points-disagree-on-{v['what']}", c12_signature(v), {
            "entry_a": list(v["a"]), "entry_b": list(v["b"]), "raising_callback": v["fault"],
            "cfg": v["cfg"], "script": v["script"], "trace_a": v["trace_a"], "trace_b": v["trace_b"],
            "how": "harness.retryenv.run_scenario(cfg, script, entry=<entry>, place='ctor', "
                   "force_mode=<style>, site_fault=<raising_callback>) for both entries"})
    n_timeout_runs = timeout_twins(rep, tier)
    n_nested = nested_contexts(rep, configs, behs, tier)
    # call() vs execute(): the two deliveries of the same scenario must be related (TLC)
    pairs = [p for p in tot["pairs"] if p["fault"] is None]
    pv = tlc_validate("PairCheck", pairs, "C12-pairs", keys=("call", "exec"))
    for p, v in zip(pairs, pv):
        if v["viol"]:
            rep.add_violation("C12:call-and-execute-deliver-different-results",
                              "C12/call-vs-execute/delivery-relation", {
                                  "cfg": p["cfg"], "script": p["script"], "call": p["call"],
                                  "exec": p["exec"], "how": "same scenario through Retry.call and Retry.execute"})
    # canary for the pair relation
    if pairs:
        bad = json.loads(json.dumps(pairs[0]))
        bad["call"]["kind"] = "ret" if bad["call"]["kind"] != "ret" else "exc"
        if not tlc_validate("PairCheck", [bad], "C12-canary", keys=("call", "exec"))[0]["viol"]:
            raise Machinery("canary: unrelated call/execute deliveries accepted")
    rep.coverage.update({
        "states": mc.distinct, "transitions": mc.generated, "behaviours_exported": len(behs),
        "scenarios_incl_raising_callbacks": tot["scen"], "entry_point_executions": tot["runs"],
        "runs_with_firing_attempt_timeouts": n_timeout_runs, "nested_run_comparisons": n_nested,
        "traces_validated_against_impl": tot["runs"],
        "entry_points": list(retryenv.ENTRY_POINTS), "call_execute_pairs_checked_by_tlc": len(pairs),
        "scenarios_differing_from_M": tot["drift"], "exhaustive": True,
        "samples": [{"cfg": configs[behs[0]["c"] - 1], "scenario": behs[0]["h"]}],
    })
    rep.assumptions += ["deterministic scripted environment shared by all entry points of a scenario",
                        "raising-callback variants: one callback raises an ordinary exception at its "
                        "first or second invocation"]
    return rep


# ---------------------------------------------------------------------------
# C15
# ---------------------------------------------------------------------------
class CustomHookError(Exception):
    pass


def _exc_types():
    from .common import import_redress
    import_redress()
    from redress.errors import AbortRetryError, CircuitOpenError, RetryExhaustedError, StopReason

    def exhausted():
        return RetryExhaustedError(stop_reason=StopReason.ABORTED, attempts=0, last_class=None,
                                   last_exception=None, last_result=None)
    return {"RuntimeError": RuntimeError, "Custom": CustomHookError, "AbortRetryError": AbortRetryError,
            "RetryExhaustedError": exhausted, "CircuitOpenError": lambda: CircuitOpenError("open"),
            "ValueError": ValueError, "TimeoutError": TimeoutError}


def _c15_chunk(chunk):
    from . import policyenv

    configs, level = _G["configs"], _G["level"]
    types = _exc_types()
    res = {"runs": 0, "viol": [], "drift": 0}
    for idx, cid, events in chunk:
        cfg = configs[cid - 1]
        entries = (("Policy", "AsyncPolicy") if level == "policy" else
                   ("Retry", "AsyncRetry") if idx % 3 else ("RetryPolicy", "AsyncRetry", "decorator"))
        for entry in entries:
            def run(hf, tl=False, acb=False):
                if level == "policy":
                    return policyenv.run_policy_scenario(cfg, events, entry=entry, hook_fault=hf,
                                                         async_callbacks=acb)
                fm = "call" if entry in retryenv.CALL_ONLY else None
                return retryenv.run_scenario(cfg, events, entry=entry, hook_fault=hf, timeline=tl,
                                             force_mode=fm, place="ctor", async_callbacks=acb)
            acb = entry.startswith("Async") and idx % 2 == 0
            tl = level == "retry" and idx % 2 == 1
            if level == "retry" and idx % 4 == 0:
                # a metric hook that is not callable with the documented arguments at all: the log hook
                # sees every event, and the run is the one without any metric hook
                fm0 = "call" if entry in retryenv.CALL_ONLY else None
                base = retryenv.run_scenario(cfg, events, entry=entry, force_mode=fm0, place="ctor",
                                             async_callbacks=acb, sinks="log")
                broken = retryenv.run_scenario(cfg, events, entry=entry, force_mode=fm0, place="ctor",
                                               async_callbacks=acb, sinks="log", broken_metric=True)
                res["runs"] += 2
                if broken != base and len(res["viol"]) < 40:
                    res["viol"].append({"entry": entry, "hook": "metric", "at": "uncallable", "exc": "TypeError",
                                        "cfg": cfg, "script": events, "silent": base, "faulty": broken,
                                        "level": level})
            silent = run(None, tl, acb)
            res["runs"] += 1
            if level == "retry" and not tl and entry in ("Retry", "AsyncRetry") and silent != events:
                res["drift"] += 1
            n_metric = sum(1 for e in silent if e["e"] in ("emit", "metric"))
            n_bs = sum(1 for e in silent if e["e"] == "bsleep")
            plan = []
            for hook, n in (("metric", n_metric), ("log", n_metric), ("bsleep", n_bs)):
                for at in list(range(1, n + 1)) + (["always"] if n else []):
                    plan.append((hook, at))
            tnames = sorted(types)
            for j, (hook, at) in enumerate(plan):
                tname = tnames[(idx + j) % len(tnames)]
                tr = run({"hook": hook, "at": at, "exc": types[tname]}, tl, acb)
                res["runs"] += 1
                if tr != silent and len(res["viol"]) < 40:
                    res["viol"].append({"entry": entry, "hook": hook, "at": at, "exc": tname,
                                        "cfg": cfg, "script": events, "silent": silent, "faulty": tr,
                                        "level": level})
    return res


def _init15(configs, level):
    _G["configs"], _G["level"] = configs, level


def check_c15(tier: str) -> Report:
    rep = Report(prop="C15", tier=tier, level="model_checking")
    mc = run_tlc("RetryMC.tla", "RetryMC_C15.cfg", tag="C15-mc", timeout=3000)
    if not mc.ok:
        raise Machinery(f"M violates {mc.violated} in RetryMC_C15.cfg")
    configs, behs, _ = export_behaviours(pick_cfg("RetryMC_C15x", tier), "C15-exp")
    pconfigs, pbehs, pex = export_behaviours(pick_cfg("PolicyMC_C15x", tier), "C15p-exp",
                                             module="PolicyMC.tla")
    # long runs (six attempts): a hook that raises at every event, with and without timeline capture
    yconfigs, ybehs, _ = export_behaviours("RetryMC_C15y.cfg", "C15y-exp")
    ybehs = [b for b in ybehs if sum(1 for e in b["h"] if e["e"] == "invoke") >= 5]
    tot = {"runs": 0, "viol": [], "drift": 0}
    for level, cf, bs in (("retry", configs, behs), ("retry", yconfigs, ybehs), ("policy", pconfigs, pbehs)):
        items = [(i, b["c"], b["h"]) for i, b in enumerate(bs)]
        size = max(5, len(items) // 112 + 1)
        chunks = [items[i:i + size] for i in range(0, len(items), size)]
        with ProcessPoolExecutor(max_workers=14, initializer=_init15, initargs=(cf, level)) as exr:
            for r in exr.map(_c15_chunk, chunks):
                tot["runs"] += r["runs"]
                tot["drift"] += r["drift"]
                tot["viol"] += r["viol"]
    for v in tot["viol"]:
        if any(e.get("e") == "harness-error" for e in v["silent"] + v["faulty"]):
            raise Machinery("harness error in a C15 scenario")
        first = next((i for i, (a, b) in enumerate(zip(v["silent"], v["faulty"])) if a != b),
                     min(len(v["silent"]), len(v["faulty"])))
        rep.add_violation("C15:raising-hook-changes-the-run",
                          f"C15/{v['level']}/{v['hook']}-raises", {
                              "entry": v["entry"], "hook": v["hook"], "raises_at_invocation": v["at"],
                              "exception_type": v["exc"], "cfg": v["cfg"], "script": v["script"],
                              "first_difference_at_event": first + 1,
                              "trace_with_silent_hooks": v["silent"], "trace_with_raising_hook": v["faulty"]})
    rep.coverage.update({
        "states": mc.distinct + pex.distinct, "transitions": mc.generated + pex.generated,
        "behaviours_exported": len(behs) + len(ybehs) + len(pbehs), "executions": tot["runs"],
        "traces_validated_against_impl": tot["runs"], "silent_traces_differing_from_M": tot["drift"],
        "hooks": ["on_metric", "on_log", "before_sleep (sync and awaitable)", "timeline wrapper"],
        "exception_types": sorted(_exc_types()), "exhaustive": True,
        "samples": [{"cfg": configs[behs[0]["c"] - 1], "scenario": behs[0]["h"]}],
    })
    rep.assumptions += ["hooks raise exceptions deriving from Exception (not BaseException)"]
    return rep
