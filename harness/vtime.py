"""Virtual time.

The library reads the clock through the stdlib ``time`` module (``time.monotonic`` in
policy/state.py, execution.py, runner/timeline.py, budget.py; ``time.sleep`` as the default
sleeper) and through ``clock=`` parameters (CircuitBreaker, AdaptiveStrategy).  The harness
replaces the functions *inside the stdlib module object* before ``redress`` is imported, so
every way of reaching them (``time.monotonic()``, ``from time import monotonic``, default
arguments evaluated at definition time) ends at the virtual clock while a clock is active.

One tick is 2**-6 s = 15625 us: exactly representable as a float *and* as a timedelta, so
every elapsed / remaining / window computation in the library is exact and the boundary
cases of the specifications (elapsed == deadline, age == window) are hit exactly.

The wall clock (``time.time``) is a different, deliberately erratic clock: it jumps by a
large pseudo-random amount, forwards or backwards, on every read.  The specification has no
wall clock; conformance therefore means "wall-clock jumps have no influence" (C02).
"""
from __future__ import annotations

import time as _time

TICK = 2.0 ** -6
BASE_TICKS = 64 * 1000  # the virtual monotonic clock starts at 1000 s

_real = {name: getattr(_time, name) for name in
         ("monotonic", "monotonic_ns", "perf_counter", "perf_counter_ns", "time", "time_ns", "sleep")}

_active: "VClock | None" = None


class VClock:
    def __init__(self, *, drift_per_read: int = 0, wall: str = "jump") -> None:
        self.wall_mode = wall       # "jump": erratic; "frozen": constant; "back": runs backwards
        self.ticks = BASE_TICKS
        self.mono_reads = 0
        self.wall_reads = 0
        self.drift_per_read = drift_per_read  # adversarial mode: the clock creeps at every read
        self._wall_state = 0x9E3779B97F4A7C15
        self.default_sleeps: list[float] = []  # time.sleep() calls that reached the default sleeper

    # -- monotonic ---------------------------------------------------------
    @property
    def now(self) -> int:
        """ticks since the start of the virtual epoch"""
        return self.ticks - BASE_TICKS

    def set_now(self, t: int) -> None:
        assert t + BASE_TICKS >= self.ticks, "virtual monotonic clock cannot go back"
        self.ticks = t + BASE_TICKS

    def advance(self, d: int) -> None:
        assert d >= 0
        self.ticks += d

    def monotonic(self) -> float:
        self.mono_reads += 1
        if self.drift_per_read:
            self.ticks += self.drift_per_read
        return self.ticks * TICK

    def monotonic_ns(self) -> int:
        return int(self.monotonic() * 1_000_000_000)

    # -- wall clock: jumps on every read ------------------------------------
    def wall(self) -> float:
        self.wall_reads += 1
        if self.wall_mode == "frozen":
            return 1767225600.0
        if self.wall_mode == "back":
            return 1767225600.0 - 1000.0 * self.wall_reads
        x = self._wall_state
        x ^= (x << 13) & 0xFFFFFFFFFFFFFFFF
        x ^= x >> 7
        x ^= (x << 17) & 0xFFFFFFFFFFFFFFFF
        self._wall_state = x
        # somewhere within +-12 days of 2026-01-01, unrelated to the monotonic clock
        return 1767225600.0 + ((x % 2_000_001) - 1_000_000) * 1.0

    def sleep(self, s: float) -> None:
        # the library's default sleeper: record and advance exactly
        self.default_sleeps.append(s)
        hook = getattr(self, "on_default_sleep", None)
        if hook is not None:
            hook(s)               # the environment logs the call like one of its own sleeper
            return
        self.ticks += max(0, int(round(s / TICK)))


def to_ticks(seconds: float) -> int | None:
    """seconds -> integer ticks if exactly a whole number of ticks, else None"""
    q = seconds / TICK
    if q != q or q in (float("inf"), float("-inf")):
        return None
    r = round(q)
    return int(r) if r == q else None


def _mono() -> float:
    c = _active
    return c.monotonic() if c is not None else _real["monotonic"]()


def _mono_ns() -> int:
    c = _active
    return c.monotonic_ns() if c is not None else _real["monotonic_ns"]()


def _wall() -> float:
    c = _active
    return c.wall() if c is not None else _real["time"]()


def _wall_ns() -> int:
    c = _active
    return int(c.wall() * 1e9) if c is not None else _real["time_ns"]()


def _sleep(s: float) -> None:
    c = _active
    if c is not None:
        c.sleep(s)
    else:
        _real["sleep"](s)


_installed = False


def install() -> None:
    """Patch the stdlib time module.  Must run before ``import redress``."""
    global _installed
    if _installed:
        return
    _time.monotonic = _mono
    _time.perf_counter = _mono
    _time.monotonic_ns = _mono_ns
    _time.perf_counter_ns = _mono_ns
    _time.time = _wall
    _time.time_ns = _wall_ns
    _time.sleep = _sleep
    _installed = True


def real_time() -> float:
    return _real["time"]()


def real_sleep(s: float) -> None:
    _real["sleep"](s)


def set_active(clock: "VClock | None") -> None:
    """install a clock without scoping (multi-threaded executions)"""
    global _active
    _active = clock


class use_clock:
    def __init__(self, clock: VClock) -> None:
        self.clock = clock

    def __enter__(self) -> VClock:
        global _active
        self._prev = _active
        _active = self.clock
        return self.clock

    def __exit__(self, *exc) -> None:
        global _active
        _active = self._prev
