"""Policy-level driver: sequences of Policy / AsyncPolicy calls sharing one circuit breaker.

Adds to retryenv.Env a breaker subclass that delegates to the real methods and records
allow / rec events, the pre-flight abort poll of policies without a retry component, and the
policy-level delivery views (rejection, pre-flight abort, no-retry outcomes).
"""
from __future__ import annotations

from typing import Any

from . import retryenv, vtime
from .retryenv import NONE, NOT_OURS, Env, OpError, drive, retry_kwargs

STATE = {"closed": "closed", "open": "open", "half_open": "half"}
STATUS = {"TRANSIENT": 408, "RATE_LIMIT": 429, "SERVER_ERROR": 500, "CONCURRENCY": 409,
          "PERMANENT": 400, "AUTH": 401, "PERMISSION": 403}


class PolicyEnv(Env):
    def __init__(self, pcfg: dict, events: list[dict], **kw) -> None:
        super().__init__(pcfg["rc"], events, **kw)
        self.pcfg = pcfg
        self.with_retry = bool(pcfg["retry"])
        self.q["prepoll"] = [e for e in events if e["e"] == "prepoll"]
        self.qi["prepoll"] = 0
        self.breaker = self.make_breaker(pcfg["bc"])

    # the virtual epoch starts at 0 for policy-level traces
    def abs_now(self) -> int:
        return self.clock.now

    def make_breaker(self, bc: dict):
        return make_spy_breaker(self, bc)

    # without a retry component abort_if is only the pre-flight poll
    def abort_if(self) -> bool:
        if self.with_retry:
            return super().abort_if()
        self._fault("abort")
        sc = self._next("prepoll")
        ans = bool(sc["ans"]) if sc else False
        self.trace.append({"e": "prepoll", "ans": ans})
        return ans

    def op(self) -> Any:
        if self.with_retry:
            return super().op()
        # classification is done by the library's default_classifier: give the exception the
        # status code of the scripted class and log the class the classifier really returns
        try:
            return super().op()
        except OpError as exc:
            from redress.classify import default_classifier

            code = STATUS.get(exc.klass)
            if code is not None:
                exc.status = code
            self.trace[-1]["k"] = self._cname(default_classifier(exc))
            raise

    def on_metric(self, event, attempt, sleep_s, tags) -> None:
        handed = tags
        if "state" in tags:
            tags = dict(tags, state=STATE.get(tags["state"], tags["state"]))
        try:
            super().on_metric(event, attempt, sleep_s, tags)
        finally:
            if self.flavours and isinstance(handed, dict):
                handed.clear()            # a hook may do what it likes with the mapping it is handed

    def on_log(self, event, fields) -> None:
        handed = fields
        if "state" in fields:
            fields = dict(fields, state=STATE.get(fields["state"], fields["state"]))
        try:
            super().on_log(event, fields)
        finally:
            if self.flavours and isinstance(handed, dict):
                handed.clear()

    # ---- views
    def view_of_exception(self, exc: BaseException) -> dict:
        from redress.errors import CircuitOpenError

        if isinstance(exc, CircuitOpenError) and self._exc_id(exc) in (NOT_OURS, NONE):
            return self._view(kind="circuit-open:" + STATE.get(exc.state, str(exc.state)))
        return super().view_of_exception(exc)

    def view_of_outcome(self, o: Any) -> dict:
        from redress.errors import CircuitOpenError

        if (isinstance(o.last_exception, CircuitOpenError) and o.attempts == 0
                and self._exc_id(o.last_exception) in (NOT_OURS, NONE)):
            v = super().view_of_outcome(o)
            v.update(kind="outcome-rejected:" + STATE.get(o.last_exception.state,
                                                         str(o.last_exception.state)), lexc=NONE)
            return v
        return super().view_of_outcome(o)


def full_pcfg(pcfg: dict) -> dict:
    from .retrycheck import ALL_CLASSES, full_cfg

    bc = dict(pcfg["bc"])
    bc["trip"] = list(bc["trip"])
    bc["cthr"] = {k: 0 for k in ALL_CLASSES} | dict(bc["cthr"])
    return {"retry": pcfg["retry"], "rc": full_cfg(pcfg["rc"]), "bc": bc}


def split_calls(events: list[dict]) -> list[list[dict]]:
    """-> policy calls ([pstart, ...]) and, between them, direct breaker operations ([ext])"""
    calls, cur = [], None
    for e in events:
        if e["e"] == "pstart":
            cur = [e]
            calls.append(cur)
        elif e["e"] == "ext":
            calls.append([e])
            cur = None
        elif cur is not None:
            cur.append(e)
    return calls


def direct_breaker_op(env, e: dict) -> None:
    """another user of the shared breaker calls it directly; logged as one `ext` event"""
    gap = e["at"] - env.clock.now
    if gap > 0:
        env.clock.advance(gap)
    b = env.breaker
    n0 = len(env.trace)
    if e["op"] == "allow":
        b.allow()
    elif e["op"] == "ok":
        b.record_success()
    elif e["op"] == "fail":
        b.record_failure(env._ec(e["k"]))
    else:
        b.record_cancel()
    logged = env.trace[n0:]
    del env.trace[n0:]
    x = logged[-1]
    env.trace.append({"e": "ext", "op": e["op"], "k": e["k"], "allowed": x.get("allowed", True),
                      "ev": x["ev"], "state": x["state"], "at": x["at"]})


def run_policy_scenario(pcfg: dict, events: list[dict], *, entry: str = "Policy", perm=None,
                        place: str = "call", async_callbacks: bool = False,
                        on_suspend=None, hook_fault=None, site_fault=None, hooks: bool = False,
                        probe_after: bool = False, flavours: str | None = None,
                        sugar_retry: bool = False) -> list[dict]:
    """entry: "Policy" or "AsyncPolicy".  Returns the observed event list."""
    is_async = entry.startswith("Async")
    if not pcfg["retry"]:
        perm = None          # default_classifier decides the classes: no renaming
    env = PolicyEnv(pcfg, events, perm=perm, is_async=is_async, async_callbacks=async_callbacks,
                    hook_fault=hook_fault)
    env.clock.ticks = vtime.BASE_TICKS
    env.site_fault = site_fault
    # kinds of values (exception types, Classification objects, falsy results ...): with a retry
    # component only - without one default_classifier decides the class from the exception itself
    env.flavours = flavours if pcfg["retry"] else None
    import redress.policy as rp

    with vtime.use_clock(env.clock):
        if pcfg["retry"]:
            ctor, call = retry_kwargs(env, pcfg["rc"], place=place)
            # (sugar_retry: the retry component is given as a RetryPolicy / AsyncRetryPolicy object)
            rcls = ((rp.AsyncRetryPolicy if is_async else rp.RetryPolicy) if sugar_retry else
                    (rp.AsyncRetry if is_async else rp.Retry))
            retry = rcls(**ctor)
        else:
            retry = None
            call = dict(on_metric=env.on_metric, on_log=env.on_log,
                        operation="op" if pcfg["rc"]["opname"] else None,
                        abort_if=env.abort_if if pcfg["rc"]["abort"] else None)
        if hooks or pcfg["rc"].get("hooks"):
            call.update(on_attempt_start=env.astart, on_attempt_end=env.aend)
        pol = (rp.AsyncPolicy if is_async else rp.Policy)(retry=retry, circuit_breaker=env.breaker)
        ci = -1
        for callev in split_calls(events):
            start = callev[0]
            if start["e"] == "ext":
                direct_breaker_op(env, start)
                continue
            ci += 1
            gap = start["at"] - env.clock.now
            if gap > 0:
                env.clock.advance(gap)
            mode = start["mode"]
            env.call_index = ci
            env.start_run()
            env.trace.append({"e": "pstart", "mode": mode, "at": env.clock.now})
            method = pol.call if mode == "call" else pol.execute
            try:
                if is_async:
                    hook = (lambda label, idx, _ci=ci: on_suspend(_ci, label, idx)) if on_suspend else None
                    res = drive(method(env.aop, **call), hook)
                else:
                    res = method(env.op, **call)
            except BaseException as exc:  # noqa: BLE001
                view = env.view_of_exception(exc)
            else:
                view = env.view_of_return(res) if mode == "call" else env.view_of_outcome(res)
            env.trace.append({"e": "pdeliver", "mode": mode, "v": view})
        if probe_after:
            # C08's direct oracle: with no call outstanding, once recovery_timeout_s has
            # elapsed the next call must be admitted
            env.clock.advance(pcfg["bc"]["R"])
            d = env.breaker.allow()
            env.trace.append({"e": "probe-after", "allowed": bool(d.allowed),
                              "state": STATE.get(d.state.value, d.state.value)})
    return env.trace


def make_spy_breaker(env, bc: dict):
    """A CircuitBreaker subclass that delegates to the real methods and records allow / rec
    events into env.trace (usable with any retryenv.Env)."""
    from redress.circuit import CircuitBreaker

    self = env
    EC = env.EC

    class SpyBreaker(CircuitBreaker):
        def _st(self) -> str:
            return STATE.get(self.state.value, str(self.state.value))

        def allow(self):
            d = super().allow()
            ds = STATE.get(d.state.value, str(d.state.value))
            ev = d.event if d.event is not None else "-"
            if ds != self._st():
                ev = f"{ev}!decision.state={ds}"
            env.trace.append({"e": "allow", "allowed": bool(d.allowed), "ev": ev,
                              "state": self._st(), "at": env.clock.now})
            return d

        def record_success(self):
            r = super().record_success()
            env.trace.append({"e": "rec", "op": "ok", "k": "-", "ev": r if r is not None else "-",
                              "state": self._st(), "at": env.clock.now})
            return r

        def record_failure(self, klass):
            r = super().record_failure(klass)
            env.trace.append({"e": "rec", "op": "fail", "k": env._cname(klass),
                              "ev": r if r is not None else "-", "state": self._st(),
                              "at": env.clock.now})
            return r

        def record_cancel(self):
            r = super().record_cancel()
            env.trace.append({"e": "rec", "op": "cancel", "k": "-", "ev": "-",
                              "state": self._st(), "at": env.clock.now})
            return r

    return SpyBreaker(
        failure_threshold=bc["thr"],
        window_s=bc["W"] * vtime.TICK,
        recovery_timeout_s=bc["R"] * vtime.TICK,
        trip_on={EC[self.perm[k]] for k in bc["trip"]},
        class_thresholds={EC[self.perm[k]]: n for k, n in bc["cthr"].items() if n > 0},
        clock=self.clock.monotonic,
    )
