"""Verification harness for aponysus/redress (see /verif/DESIGN.md).

Importing the package installs the virtual clock into the stdlib ``time`` module and puts the
working tree of the repository under test first on sys.path, so that every later
``import redress`` - in the main process and in pool workers - gets the code under test with
virtual time in place.
"""
import os as _os
import sys as _sys

from . import vtime as _vtime

_vtime.install()
_src = _os.path.join(_os.environ.get("VERIF_REPO", "/repo"), "src")
if _src not in _sys.path:
    _sys.path.insert(0, _src)
_os.environ.setdefault("REDRESS_VERIF", "1")
