"""Replay of a TLC-exported transition graph of M on the real implementation.

TLC prints one EDGE line per transition: {pre, lastop, ev, post} where pre/post are M states
(JSON records, field c = configuration index) and ev is the labelled operation together with
the observation M predicts.  The harness
  1. replays *every* transition: the real object is driven from its initial state along a
     path of M to the transition's source state, then the transition's operation is applied;
  2. replays random walks through the graph (path diversity: hidden state that only shows
     later).
After every operation the real observation is compared with M's prediction.  Traces with a
difference are returned; the caller sends them to the TLC trace check for the verdict.
"""
from __future__ import annotations

import json
import random
from collections import deque
from typing import Callable


def _key(st: dict) -> str:
    return json.dumps(st, sort_keys=True)


def replay_graph(edges: list[dict], make_real: Callable[[int], object], same: Callable[[dict, dict], bool],
                 rng: random.Random, n_walks: int, walk_len: int = 24, max_mismatch: int = 3000):
    """make_real(cid) -> object with .do(ev) -> observed event (same shape as ev) and .config.
    Returns dict(n_traces, n_ops, mismatches=[{cfg, ev(observed), predicted}], samples)."""
    graph: dict[str, list] = {}
    inits: dict[int, str] = {}
    for e in edges:
        k = _key(e["pre"])
        graph.setdefault(k, []).append((e["ev"], _key(e["post"])))
        if e["lastop"] == "init":
            inits[e["pre"]["c"]] = k
    paths: dict[str, tuple] = {}
    for _cid, k0 in inits.items():
        paths[k0] = ()
        dq = deque([k0])
        while dq:
            u = dq.popleft()
            for ev, v in graph.get(u, ()):
                if v not in paths:
                    paths[v] = paths[u] + ((ev,) if ev["op"] != "tick" else ())
                    dq.append(v)
    out = {"n_traces": 0, "n_ops": 0, "mismatches": [], "samples": [], "nodes": len(paths)}

    def run(cid: int, evs) -> None:
        real = make_real(cid)
        obs, pred = [], []
        bad = False
        for ev in evs:
            o, p = real.do(ev)
            obs.append(o)
            pred.append(p)
            out["n_ops"] += 1
            if not same(o, p):
                bad = True
        out["n_traces"] += 1
        if bad and len(out["mismatches"]) < max_mismatch:
            out["mismatches"].append({"cfg": real.config, "ev": obs, "predicted": pred})
        if not bad and len(out["samples"]) < 3 and len(evs) >= 4:
            out["samples"].append({"cfg": real.config, "ops": obs})

    for u, outs in graph.items():
        if u not in paths:
            continue
        cid = json.loads(u)["c"]
        for ev, _v in outs:
            if ev["op"] != "tick":
                run(cid, paths[u] + (ev,))
    init_keys = sorted(inits.items())
    for _ in range(n_walks):
        cid, u = init_keys[rng.randrange(len(init_keys))]
        evs = []
        for _step in range(walk_len):
            if not graph.get(u):
                break
            ev, u = graph[u][rng.randrange(len(graph[u]))]
            if ev["op"] != "tick":
                evs.append(ev)
        if evs:
            run(cid, evs)
    return out
